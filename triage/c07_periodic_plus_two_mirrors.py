"""Triage only (not a check): ghost images of CPUDomainManager for every combination of periodic / mirror flags per axis against the images computed by brute force.
Run: cd /verif/triage && TRIAGE_EXT=<dir with nnps_base built from the tree> timeout 300 /venv/bin/python c07_periodic_plus_two_mirrors.py"""
import _overlay
import itertools, sys
import numpy as np
from pysph.base.utils import get_particle_array
from pysph.base.nnps import DomainManager, LinkedListNNPS

def expected(X, V, flags, lo, hi, layer):
    """all images (positions, velocities) of the real particles within the ghost layer, identity excluded"""
    per_axis = []
    for ax in range(3):
        kind = flags[ax]
        L = hi[ax] - lo[ax]
        opts = [('id', None)]
        if kind == 'p':
            opts += [('shift', +L), ('shift', -L)]
        if kind == 'm':
            opts += [('refl', lo[ax]), ('refl', hi[ax])]
        per_axis.append(opts)
    out = []
    for combo in itertools.product(*per_axis):
        if all(c[0] == 'id' for c in combo):
            continue
        for x, v in zip(X, V):
            y = x.copy(); w = v.copy(); ok = True
            for ax, (k, a) in enumerate(combo):
                if k == 'shift':
                    # image beyond the low face comes from the particles near the high face and vice versa
                    if a > 0 and not (x[ax] - lo[ax] <= layer): ok = False
                    if a < 0 and not (hi[ax] - x[ax] <= layer): ok = False
                    y[ax] = x[ax] + a
                elif k == 'refl':
                    if a == lo[ax] and not (x[ax] - lo[ax] <= layer): ok = False
                    if a == hi[ax] and not (hi[ax] - x[ax] <= layer): ok = False
                    y[ax] = 2 * a - x[ax]; w[ax] = -v[ax]
            if ok:
                out.append(tuple(np.round(np.r_[y, w], 9)))
    return sorted(out)

rng = np.random.default_rng(2)
fail = 0
for flags in itertools.product('-pm', repeat=3):
    if not any(f != '-' for f in flags):
        continue
    n = int(sys.argv[1]) if len(sys.argv) > 1 else 60
    X = rng.random((n, 3)); V = rng.random((n, 3)) - 0.5
    pa = get_particle_array(name='f', x=X[:, 0].copy(), y=X[:, 1].copy(), z=X[:, 2].copy(), u=V[:, 0].copy(), v=V[:, 1].copy(), w=V[:, 2].copy(), h=np.full(n, 0.05))
    kw = dict(xmin=0., xmax=1., ymin=0., ymax=1., zmin=0., zmax=1.)
    for ax, nm in enumerate('xyz'):
        kw['periodic_in_' + nm] = flags[ax] == 'p'
        kw['mirror_in_' + nm] = flags[ax] == 'm'
    dm = DomainManager(n_layers=1.0, **kw)
    nn = LinkedListNNPS(dim=3, particles=[pa], radius_scale=2.0, domain=dm)
    for rnd in range(2):
        nn.update_domain() if hasattr(nn, 'update_domain') else dm.update()
    layer = 1.0 * dm.manager.cell_size if hasattr(dm, 'manager') else 0.1
    A = dict((k, pa.get(k, only_real_particles=False)) for k in ('tag', 'x', 'y', 'z', 'u', 'v', 'w'))
    g = A['tag'] == 2
    got = sorted(tuple(np.round(r, 9)) for r in np.c_[A['x'][g], A['y'][g], A['z'][g], A['u'][g], A['v'][g], A['w'][g]])
    want = expected(X, V, flags, np.zeros(3), np.ones(3), layer)
    nreal = int((A['tag'] == 0).sum())
    ok = got == want and nreal == n
    if not ok:
        fail += 1
    gs, ws = set(got), set(want)
    print(''.join(flags), 'ok' if ok else 'DIFFERENT', 'real %d ghosts %d expected %d missing %d unexpected %d duplicated %d' % (nreal, len(got), len(want), len(ws - gs), len(gs - ws), len(got) - len(gs)))
sys.exit(1 if fail else 0)
