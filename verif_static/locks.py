"""E5 - lock analysis for one class: held-sets, lock-order graph, wait sites, locksets."""
import ast

from .model import dotted, call_name, methods, unparse

MUTATORS = ('append', 'pop', 'add', 'remove', 'discard', 'update', 'clear', 'extend', 'insert', 'setdefault', 'popitem')


class Site(object):
    def __init__(self, func, node, held, **kw):
        self.func = func
        self.node = node
        self.held = tuple(held)
        self.__dict__.update(kw)

    @property
    def line(self):
        return getattr(self.node, 'lineno', 0)


class LockModel(object):
    def __init__(self, cls, lock_map_attrs=(), sync_decorators=('synchronized',)):
        self.cls = cls
        self.meths = methods(cls)
        self.locks = {}         # name -> kind
        self.lock_map_attrs = set(lock_map_attrs)   # dict attributes holding per-item locks
        self.acq = []           # Site(lock=...)
        self.calls = []         # Site(callee=...)
        self.ops = []           # Site(lock=..., op=..., loop=While or None)
        self.writes = []        # Site(attr=...)
        self.reads = []
        self.func_locks = {}    # func -> decorator lock name
        init = self.meths.get('__init__')
        if init is not None:
            for a in ast.walk(init):
                if isinstance(a, ast.Assign) and isinstance(a.value, ast.Call):
                    nm = call_name(a.value) or ''
                    if nm in ('threading.Lock', 'threading.RLock', 'threading.Condition', 'Lock', 'RLock', 'Condition'):
                        for t in a.targets:
                            d = dotted(t)
                            if d and d.startswith('self.'):
                                self.locks[d[5:]] = nm.split('.')[-1]
        for name, fn in self.meths.items():
            for d in fn.decorator_list:
                dn = dotted(d) if not isinstance(d, ast.Call) else dotted(d.func)
                if dn in sync_decorators and not isinstance(d, ast.Call):
                    lk = 'synchronized:%s' % name
                    self.locks[lk] = 'Lock'
                    self.func_locks[name] = lk
        if self.lock_map_attrs:
            self.locks['item-lock'] = 'Lock'
        for name, fn in self.meths.items():
            self._func(name, fn)
        self._entry_held = None

    # -- expression -> lock name
    def lock_of(self, e, local):
        d = dotted(e)
        if d and d.startswith('self.') and d[5:] in self.locks:
            return d[5:]
        if isinstance(e, ast.Name) and e.id in local:
            return local[e.id]
        if isinstance(e, ast.Subscript):
            b = dotted(e.value)
            if b and b.startswith('self.') and b[5:] in self.lock_map_attrs:
                return 'item-lock'
        return None

    def _func(self, name, fn):
        local = {}
        held0 = []
        if name in self.func_locks:
            held0 = [self.func_locks[name]]
            self.acq.append(Site(name, fn, [], lock=self.func_locks[name], how='decorator'))
        self._block(name, fn.body, held0, local, None)

    def _scan_expr(self, name, stmt, e, held, local, loop):
        for c in [n for n in ast.walk(e) if isinstance(n, ast.Call)]:
            nm = call_name(c)
            if isinstance(c.func, ast.Attribute):
                lk = self.lock_of(c.func.value, local)
                if lk is not None and c.func.attr in ('wait', 'notify', 'notify_all', 'notifyAll', 'acquire', 'release'):
                    self.ops.append(Site(name, c, held, lock=lk, op=c.func.attr, loop=loop, stmt=stmt))
                    continue
                base = dotted(c.func.value)
                if base and base.startswith('self.') and c.func.attr in MUTATORS and base.count('.') == 1:
                    self.writes.append(Site(name, c, held, attr=base[5:], how=c.func.attr))
            if nm and nm.startswith('self.') and nm.count('.') == 1 and nm[5:] in self.meths:
                self.calls.append(Site(name, c, held, callee=nm[5:]))
        for n in ast.walk(e):
            if isinstance(n, ast.Attribute) and isinstance(n.value, ast.Name) and n.value.id == 'self' \
                    and isinstance(n.ctx, ast.Load) and n.attr not in self.locks and n.attr not in self.meths:
                self.reads.append(Site(name, n, held, attr=n.attr, loop=loop))

    def _targets(self, name, stmt, targets, held):
        for t in targets:
            for x in ast.walk(t):
                pass
            base = t
            how = 'assign'
            while isinstance(base, ast.Subscript):
                base = base.value
                how = 'setitem'
            if isinstance(base, (ast.Tuple, ast.List)):
                self._targets(name, stmt, base.elts, held)
                continue
            d = dotted(base)
            if d and d.startswith('self.') and d.count('.') == 1:
                self.writes.append(Site(name, stmt, held, attr=d[5:], how=how))

    def _explicit(self, s, local):
        """(lock, 'acquire' | 'release') for a bare `lock.acquire()` / `lock.release()` statement"""
        if isinstance(s, ast.Expr) and isinstance(s.value, ast.Call) and isinstance(s.value.func, ast.Attribute) and s.value.func.attr in ('acquire', 'release'):
            lk = self.lock_of(s.value.func.value, local)
            if lk is not None:
                return lk, s.value.func.attr
        return None

    def _block(self, name, stmts, held, local, loop):
        held = list(held)       # explicit acquire()/release() statements change what is held for the rest of the block
        for s in stmts:
            ex = self._explicit(s, local)
            if ex is not None:
                lk, what = ex
                if what == 'acquire':
                    self.acq.append(Site(name, s, list(held), lock=lk, how='acquire'))
                    held = held + [lk]
                elif lk in held:
                    held = [h for h in held if h != lk]
                continue
            if isinstance(s, ast.Try):
                self._block(name, s.body, held, local, loop)
                for h in s.handlers:
                    self._block(name, h.body, held, local, loop)
                self._block(name, s.orelse, held, local, loop)
                self._block(name, s.finalbody, held, local, loop)
                for f in s.finalbody:
                    ex2 = self._explicit(f, local)
                    if ex2 is not None and ex2[1] == 'release':
                        held = [h for h in held if h != ex2[0]]
                continue
            if isinstance(s, (ast.With, ast.AsyncWith)):
                got = []
                for it in s.items:
                    lk = self.lock_of(it.context_expr, local)
                    if lk is not None:
                        self.acq.append(Site(name, s, held + got, lock=lk, how='with'))
                        got.append(lk)
                    else:
                        self._scan_expr(name, s, it.context_expr, held, local, loop)
                self._block(name, s.body, held + got, local, loop)
            elif isinstance(s, ast.While):
                self._scan_expr(name, s, s.test, held, local, s)
                self._block(name, s.body, held, local, s)
                self._block(name, s.orelse, held, local, loop)
            elif isinstance(s, ast.For):
                self._scan_expr(name, s, s.iter, held, local, loop)
                self._block(name, s.body, held, local, loop)
                self._block(name, s.orelse, held, local, loop)
            elif isinstance(s, ast.If):
                self._scan_expr(name, s, s.test, held, local, loop)
                self._block(name, s.body, held, local, loop)
                self._block(name, s.orelse, held, local, loop)
            elif isinstance(s, ast.Try):
                self._block(name, s.body, held, local, loop)
                for h in s.handlers:
                    self._block(name, h.body, held, local, loop)
                self._block(name, s.orelse, held, local, loop)
                self._block(name, s.finalbody, held, local, loop)
            elif isinstance(s, (ast.FunctionDef, ast.ClassDef)):
                continue
            else:
                if isinstance(s, ast.Assign):
                    # local lock creation / alias of a per-item lock
                    if isinstance(s.value, ast.Call) and (call_name(s.value) or '') in ('threading.Lock', 'threading.RLock'):
                        for t in s.targets:
                            if isinstance(t, ast.Name):
                                local[t.id] = 'item-lock' if self.lock_map_attrs else 'local:%s:%s' % (name, t.id)
                    elif self.lock_of(s.value, local) is not None:
                        for t in s.targets:
                            if isinstance(t, ast.Name):
                                local[t.id] = self.lock_of(s.value, local)
                    self._targets(name, s, s.targets, held)
                    self._scan_expr(name, s, s.value, held, local, loop)
                elif isinstance(s, ast.AugAssign):
                    self._targets(name, s, [s.target], held)
                    self._scan_expr(name, s, s.value, held, local, loop)
                elif isinstance(s, ast.Delete):
                    self._targets(name, s, s.targets, held)
                else:
                    self._scan_expr(name, s, s, held, local, loop)

    # -- interprocedural
    def entry_held(self, entries):
        """locks certainly held on entry of each method (intersection over internal call sites);
        ``entries`` are methods callable from outside with nothing held."""
        if self._entry_held is not None:
            return self._entry_held
        TOP = None
        eh = dict((m, TOP) for m in self.meths)
        for e in entries:
            eh[e] = frozenset()
        called = set(c.callee for c in self.calls)
        for m in self.meths:
            if m not in called and eh[m] is TOP:
                eh[m] = frozenset()
        changed = True
        while changed:
            changed = False
            for c in self.calls:
                ch = eh[c.func]
                if ch is TOP:
                    continue
                h = frozenset(c.held) | ch
                old = eh[c.callee]
                new = h if old is TOP else (old & h)
                if c.callee in entries:
                    new = frozenset()
                if new != old:
                    eh[c.callee] = new
                    changed = True
        for m in eh:
            if eh[m] is TOP:
                eh[m] = frozenset()
        self._entry_held = eh
        return eh

    def order_edges(self, entries):
        eh = self.entry_held(entries)
        edges = {}
        for a in self.acq:
            H = set(a.held) | set(eh[a.func])
            for h in H:
                if h == a.lock and self.locks.get(h) == 'RLock':
                    continue
                edges.setdefault((h, a.lock), []).append(a)
        return edges

    def cycles(self, edges):
        g = {}
        for (a, b) in edges:
            g.setdefault(a, set()).add(b)
        out = []
        seen = set()

        def dfs(start, cur, path):
            for n in sorted(g.get(cur, ())):
                if n == start:
                    cyc = path + [n]
                    key = frozenset(zip(cyc, cyc[1:]))
                    if key not in seen:
                        seen.add(key)
                        out.append(cyc)
                elif n not in path and n > start:
                    dfs(start, n, path + [n])
        for s in sorted(g):
            dfs(s, s, [s])
        return out
