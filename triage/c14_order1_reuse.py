"""Triage demo: Interpolator(method='order1') in 3D called twice on the same data.

  cd /tmp && timeout 600 /venv/bin/python /verif/triage/c14_order1_reuse.py

SPHFirstOrderApproximation.initialize zeroes only entries 0..2 of the 4-vector d_p_sph (and of d_prop); entry 3 (the z
component of the right-hand side) keeps accumulating across evaluations.  In 3D the second call therefore solves a system with
a wrong right-hand side: the interpolated value of a linear field drifts.  Exit 1 when the two calls disagree.
"""
import os, sys
sys.path.insert(0, os.path.dirname(os.path.abspath(__file__)))
import _overlay  # noqa
import numpy as np
from pysph.base.utils import get_particle_array
from pysph.tools.interpolator import Interpolator

dx = 0.1
x, y, z = np.mgrid[0:1 + dx / 2:dx, 0:1 + dx / 2:dx, 0:1 + dx / 2:dx]
x, y, z = x.ravel(), y.ravel(), z.ravel()
p = 1.0 + 2 * x + 3 * y + 4 * z
pa = get_particle_array(name='f', x=x, y=y, z=z, h=1.3 * dx, m=dx ** 3, rho=1.0, p=p)
xi = np.array([0.45, 0.52]); yi = np.array([0.5, 0.47]); zi = np.array([0.5, 0.55])
ip = Interpolator([pa], x=xi, y=yi, z=zi, method='order1')
exact = 1.0 + 2 * xi + 3 * yi + 4 * zi
r1 = ip.interpolate('p').copy()
r2 = ip.interpolate('p').copy()
r3 = ip.interpolate('p').copy()
print('exact ', exact)
print('call 1', r1)
print('call 2', r2)
print('call 3', r3)
bad = not (np.allclose(r1, r2, rtol=1e-10) and np.allclose(r2, r3, rtol=1e-10))
print('FAIL: repeated evaluation changes the result' if bad else 'PASS')
sys.exit(1 if bad else 0)
