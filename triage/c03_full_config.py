"""Triage only: render a group with sub-groups + condition + iterate + pre/post/update_nnps + sub-group
condition and check that the emitted source parses as Cython (before the C03 fix it did not)."""
import _overlay, sys
sys.path.insert(0, '/verif')
from pysph.base.utils import get_particle_array
from pysph.base.kernels import CubicSpline
from pysph.sph.equation import Group, Equation
from pysph.sph.acceleration_eval import AccelerationEval
from pysph.sph.acceleration_eval_cython_helper import AccelerationEvalCythonHelper
from verif_static import cy2ast


class E(Equation):
    def initialize(self, d_idx, d_au):
        d_au[d_idx] = 1.0


pa = get_particle_array(name='f', x=[0., 1.], au=[0., 0.])
c = lambda t, dt: True
g = Group(equations=[Group(equations=[E(dest='f', sources=None)], condition=c)], condition=c, pre=lambda: None,
          post=lambda: None, update_nnps=True, iterate=True, max_iterations=3)
a = AccelerationEval([pa], [g], CubicSpline(dim=1))
code = AccelerationEvalCythonHelper(a).get_code()
i = code.index('cpdef compute')
j = code.index('# Group', i)
print('\n'.join(l for l in code[j:].splitlines() if l.strip() and not l.strip().startswith('#')))
try:
    cy2ast.cy_string_to_ast('/repo', code, 'rendered')
    print('C03: rendered module parses as Cython')
except Exception as e:
    print('C03: rendered module is NOT valid Cython:', str(e)[-200:])
