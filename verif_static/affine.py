"""E7 - affine access signatures of loop nests over flat arrays.

For a function made of ``for v in range(...)`` nests, scalar accumulators and
subscripted stores, derive for every store the *access relation*
``A[index] = value`` where ``index`` is a polynomial in loop variables and
parameters and ``value`` is a term over array accesses, sums over the
reduction loops and Kronecker deltas.  Canonical renaming of the loop
variables makes the signature independent of counter names, loop interchange
and hoisted temporaries.  Unknown idioms raise ``Unknown`` (-> UNDECIDED).
"""
import ast
from fractions import Fraction

from .poly import Poly, from_ast


class Unknown(Exception):
    pass


def U(n):
    try:
        return ast.unparse(n)
    except Exception:
        return '?'


class Store(object):
    def __init__(self, array, index, value, loops, node, kind='store'):
        self.array = array
        self.index = index      # Poly or None (for return)
        self.value = value      # term
        self.loops = loops      # [(var, lo Poly, hi Poly)]
        self.node = node
        self.kind = kind


def _range(call, env):
    if not (isinstance(call, ast.Call) and isinstance(call.func, ast.Name) and call.func.id in ('range', 'prange')):
        raise Unknown('loop over %s' % U(call))
    a = [from_ast(x, env) for x in call.args]
    if any(x is None for x in a):
        raise Unknown('non-affine range %s' % U(call))
    if len(a) == 1:
        return Poly.const(0), a[0]
    if len(a) == 2:
        return a[0], a[1]
    if len(a) == 3 and a[2] == Poly.const(1):
        return a[0], a[1]
    raise Unknown('range with step %s' % U(call))


class Extract(object):
    def __init__(self, fn):
        self.fn = fn
        self.stores = []
        self.scalars = {}     # name -> (term, depth)
        self.ints = {}        # name -> Poly  (integer temporaries such as nt = n + na)
        self.loopvars = set()
        self.int_names = set()
        for s in ast.walk(fn):
            # declare('int', k) idiom
            if isinstance(s, ast.Assign) and isinstance(s.value, ast.Call) and isinstance(s.value.func, ast.Name) \
                    and s.value.func.id == 'declare' and s.value.args and isinstance(s.value.args[0], ast.Constant) \
                    and 'int' in str(s.value.args[0].value):
                for t in s.targets:
                    for x in (t.elts if isinstance(t, ast.Tuple) else [t]):
                        if isinstance(x, ast.Name):
                            self.int_names.add(x.id)
        self.params = [a.arg for a in fn.args.args]

    def run(self):
        self.block(self.fn.body, [])
        return self.stores

    def term(self, e, stack):
        if isinstance(e, ast.Constant) and isinstance(e.value, (int, float)) and not isinstance(e.value, bool):
            return ('const', Fraction(e.value).limit_denominator(10 ** 12))
        if isinstance(e, ast.Name):
            if e.id in self.scalars:
                return self.scalars[e.id][0]
            if e.id in self.ints:
                return ('poly', self.ints[e.id])
            if e.id in self.loopvars or e.id in self.params:
                return ('poly', Poly.var(e.id))
            raise Unknown('unbound scalar %s' % e.id)
        if isinstance(e, ast.Subscript) and isinstance(e.value, ast.Name):
            idx = from_ast(e.slice, self.ints)
            if idx is None:
                raise Unknown('non-affine subscript %s' % U(e))
            return ('acc', e.value.id, idx)
        if isinstance(e, ast.BinOp):
            a, b = self.term(e.left, stack), self.term(e.right, stack)
            if isinstance(e.op, ast.Add):
                return ('add', (a, b))
            if isinstance(e.op, ast.Sub):
                return ('add', (a, ('neg', b)))
            if isinstance(e.op, ast.Mult):
                return ('mul', (a, b))
            if isinstance(e.op, ast.Div):
                return ('div', a, b)
            raise Unknown('operator in %s' % U(e))
        if isinstance(e, ast.UnaryOp) and isinstance(e.op, ast.USub):
            return ('neg', self.term(e.operand, stack))
        if isinstance(e, ast.Call) and isinstance(e.func, ast.Name) and e.func.id == 'float' and len(e.args) == 1:
            return self.term(e.args[0], stack)
        if isinstance(e, ast.Call) and isinstance(e.func, ast.Name):
            return ('call', e.func.id, tuple(self.term(a, stack) for a in e.args))
        if isinstance(e, ast.IfExp) and isinstance(e.test, ast.Compare) and len(e.test.ops) == 1 \
                and isinstance(e.test.ops[0], ast.Eq):
            a, b = from_ast(e.test.left, self.ints), from_ast(e.test.comparators[0], self.ints)
            t1, t0 = self.term(e.body, stack), self.term(e.orelse, stack)
            if a is not None and b is not None and t1 == ('const', Fraction(1)) and t0 == ('const', Fraction(0)):
                return ('delta', a, b)
        raise Unknown('expression %s' % U(e))

    def block(self, stmts, stack):
        for s in stmts:
            self.stmt(s, stack)

    def stmt(self, s, stack):
        if isinstance(s, ast.Expr) and isinstance(s.value, ast.Constant):
            return   # docstring
        if isinstance(s, ast.For):
            if not isinstance(s.target, ast.Name):
                raise Unknown('loop target %s' % U(s.target))
            lo, hi = _range(s.iter, self.ints)
            self.loopvars.add(s.target.id)
            self.block(s.body, stack + [(s.target.id, lo, hi)])
            return
        if isinstance(s, ast.Assign) and len(s.targets) == 1:
            t = s.targets[0]
            if isinstance(s.value, ast.Call) and isinstance(s.value.func, ast.Name) and s.value.func.id == 'declare':
                return
            if isinstance(t, ast.Name):
                if t.id in self.int_names:
                    p = from_ast(s.value, self.ints)
                    if p is None:
                        raise Unknown('integer temporary %s' % U(s))
                    self.ints[t.id] = p
                    return
                self.scalars[t.id] = (self.term(s.value, stack), len(stack))
                return
            if isinstance(t, ast.Subscript) and isinstance(t.value, ast.Name):
                idx = from_ast(t.slice, self.ints)
                if idx is None:
                    raise Unknown('non-affine store index %s' % U(t))
                self.stores.append(Store(t.value.id, idx, self.term(s.value, stack), list(stack), s))
                return
        if isinstance(s, ast.AugAssign) and isinstance(s.op, ast.Add):
            t = s.target
            if isinstance(t, ast.Name) and t.id in self.scalars:
                old, depth = self.scalars[t.id]
                inner = stack[depth:]
                val = self.term(s.value, stack)
                if old != ('const', Fraction(0)):
                    raise Unknown('accumulator %s not zero-initialised at its loop level' % t.id)
                self.scalars[t.id] = (('sum', tuple(inner), val), depth)
                return
            if isinstance(t, ast.Subscript) and isinstance(t.value, ast.Name):
                idx = from_ast(t.slice, self.ints)
                if idx is None:
                    raise Unknown('non-affine store index %s' % U(t))
                self.stores.append(Store(t.value.id, idx, self.term(s.value, stack), list(stack), s, kind='accumulate'))
                return
        if isinstance(s, ast.If) and isinstance(s.test, ast.Compare) and len(s.test.ops) == 1 \
                and isinstance(s.test.ops[0], (ast.Eq, ast.NotEq)) and len(s.body) == 1 and len(s.orelse) == 1:
            # `if i == j: x = 1 else: x = 0` and its mirror image under `!=`
            b1, b0 = (s.body[0], s.orelse[0]) if isinstance(s.test.ops[0], ast.Eq) else (s.orelse[0], s.body[0])
            if isinstance(b1, ast.Assign) and isinstance(b0, ast.Assign) and U(b1.targets[0]) == U(b0.targets[0]) \
                    and isinstance(b1.targets[0], ast.Subscript):
                a, b = from_ast(s.test.left, self.ints), from_ast(s.test.comparators[0], self.ints)
                v1, v0 = self.term(b1.value, stack), self.term(b0.value, stack)
                if a is not None and b is not None and v1 == ('const', Fraction(1)) and v0 == ('const', Fraction(0)):
                    t = b1.targets[0]
                    self.stores.append(Store(t.value.id, from_ast(t.slice, self.ints), ('delta', a, b), list(stack), s))
                    return
        if isinstance(s, ast.If) and not s.orelse and isinstance(s.test, ast.Compare) and len(s.test.ops) == 1 and isinstance(s.test.ops[0], (ast.Lt, ast.LtE, ast.Gt, ast.GtE)):
            # a guard on a loop variable narrows the range over which the guarded stores happen: `for j in range(n): if j < na: ...` stores for j in [0, min(n, na))
            l_, r_, op_ = s.test.left, s.test.comparators[0], s.test.ops[0]
            if isinstance(op_, (ast.Gt, ast.GtE)):
                l_, r_, op_ = r_, l_, (ast.Lt() if isinstance(op_, ast.Gt) else ast.LtE())
            names_ = [v for v, lo, hi in stack]
            if isinstance(l_, ast.Name) and l_.id in names_:
                bound = from_ast(r_, self.ints)
                if bound is not None and l_.id not in bound.atoms():
                    if isinstance(op_, ast.LtE):
                        bound = bound + Poly.const(1)
                    new_stack = [(v, lo, (Poly.var('min(%s,%s)' % (hi, bound)) if v == l_.id else hi)) for v, lo, hi in stack]
                    self.block(s.body, new_stack)
                    return
        if isinstance(s, ast.Return):
            if s.value is None:
                return
            self.stores.append(Store('<return>', None, self.term(s.value, stack), list(stack), s, kind='return'))
            return
        if isinstance(s, ast.Pass):
            return
        raise Unknown('statement %s' % U(s)[:60])


def _rename_poly(p, ren):
    return p.subs(dict((k, Poly.var(v)) for k, v in ren.items()))


def _term_str(t, ren):
    k = t[0]
    if k == 'const':
        return str(t[1])
    if k == 'poly':
        return '(%s)' % _rename_poly(t[1], ren)
    if k == 'acc':
        return '%s[%s]' % (t[1], _rename_poly(t[2], ren))
    if k == 'add':
        return '(' + ' + '.join(sorted(_term_str(x, ren) for x in _flatten(t, 'add'))) + ')'
    if k == 'mul':
        return '(' + '*'.join(sorted(_term_str(x, ren) for x in _flatten(t, 'mul'))) + ')'
    if k == 'neg':
        return '-' + _term_str(t[1], ren)
    if k == 'div':
        return '(%s/%s)' % (_term_str(t[1], ren), _term_str(t[2], ren))
    if k == 'delta':
        return 'delta(%s)' % ','.join(sorted([str(_rename_poly(t[1], ren)), str(_rename_poly(t[2], ren))]))
    if k == 'call':
        return '%s(%s)' % (t[1], ','.join(_term_str(x, ren) for x in t[2]))
    if k == 'sum':
        ren2 = dict(ren)
        names = []
        for (v, lo, hi) in t[1]:
            nm = 'r%d' % len([x for x in ren2.values() if x.startswith('r')])
            ren2[v] = nm
            names.append('%s in [%s,%s)' % (nm, _rename_poly(lo, ren2), _rename_poly(hi, ren2)))
        return 'sum{%s}%s' % ('; '.join(sorted(names)), _term_str(t[2], ren2))
    raise Unknown('term kind %s' % k)


def _flatten(t, kind):
    out = []
    for x in t[1]:
        if x[0] == kind:
            out.extend(_flatten(x, kind))
        else:
            out.append(x)
    return out


def canonical(store):
    """Canonical signature string of one store (loop-variable names, nesting order and
    temporaries do not matter)."""
    loops = store.loops
    loopnames = [v for v, lo, hi in loops]
    ren = {}
    if store.index is not None:
        used = [v for v in loopnames if v in store.index.atoms()]
        # order output variables by their coefficient (larger stride first), then range
        def keyf(v):
            c = store.index.coeff_of(v)
            cs = str(c[0]) if c is not None else '?'
            deg = max((sum(e for a, e in k) for k in c[0].t), default=0) if c is not None else 9
            return (-deg, cs)
        used.sort(key=keyf)
        for i, v in enumerate(used):
            ren[v] = 'o%d' % i
    # loops enclosing the store that do not appear in the index: repeated stores (suspicious)
    extra = [v for v in loopnames if v not in ren]
    for i, v in enumerate(extra):
        ren[v] = 'x%d' % i
    rng = []
    for v, lo, hi in loops:
        rng.append('%s in [%s,%s)' % (ren[v], _rename_poly(lo, ren), _rename_poly(hi, ren)))
    idx = str(_rename_poly(store.index, ren)) if store.index is not None else ''
    op = {'store': '=', 'accumulate': '+=', 'return': 'return'}[store.kind]
    return '%s[%s] %s %s  for %s' % (store.array, idx, op, _term_str(store.value, ren), '; '.join(sorted(rng)))


def signature(fn):
    ex = Extract(fn)
    stores = ex.run()
    return sorted(canonical(s) for s in stores), stores, ex
