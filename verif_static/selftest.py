"""Self-test of a check (thorough tier): the check is run against scratch copies of /repo's working tree, each with one edit.

  fires   - an edit that breaks the property (hand-written variants in /verif/selftest/<ID>.json and the confirmed seeded
            changes in /verif/seeded/<ID>-k/patch.diff): the check must exit 1 and name one of the expected rules;
  silent  - an edit that leaves behaviour unchanged (renamed local, commuted operands, shifted lines, ...): the check must
            exit 0.

A variant whose text no longer occurs in the tree is reported as stale (analysis error), never skipped silently.  Scratch
copies live under a fresh temporary directory and are removed as soon as the variant has been judged.
"""
import json
import os
import re
import shutil
import subprocess
import tempfile
from concurrent.futures import ThreadPoolExecutor

HERE = os.path.dirname(os.path.dirname(os.path.abspath(__file__)))


def load_variants(pid):
    out = []
    p = os.path.join(HERE, 'selftest', pid + '.json')
    if os.path.exists(p):
        for v in json.load(open(p)):
            out.append(v)
    sd = os.path.join(HERE, 'seeded')
    if os.path.isdir(sd):
        for d in sorted(os.listdir(sd)):
            pd = os.path.join(sd, d, 'patch.diff')
            mp = os.path.join(sd, d, 'meta.json')
            if not os.path.exists(pd) or not os.path.exists(mp):
                continue
            meta = json.load(open(mp))
            owners = [meta.get('property')] if meta.get('detected_by_check') else []
            owners += meta.get('also_detected_by') or []
            if pid in owners:
                out.append({'name': 'seeded:' + d, 'patch': pd, 'fires': []})
    return out


def anchored_files(pid, repo):
    for l in open(os.path.join(HERE, 'properties.jsonl')):
        p = json.loads(l)
        if p['id'] == pid:
            return [f for f in p['anchors']['files'] if f.endswith(('.py', '.pyx', '.mako')) and os.path.exists(os.path.join(repo, f))]
    return []


def one(pid, v, repo):
    tmp = tempfile.mkdtemp(prefix='vst_%s_' % pid)
    try:
        for sub in ('pysph', 'docs'):
            if os.path.isdir(os.path.join(repo, sub)):
                shutil.copytree(os.path.join(repo, sub), os.path.join(tmp, sub), ignore=shutil.ignore_patterns('*.pyc', '__pycache__', '*.so', '*.c', '*.cpp', '*.html'))
        if 'patch' in v:
            pfile = v['patch'] if os.path.isabs(v['patch']) else os.path.join(HERE, v['patch'])
            r = subprocess.run(['patch', '-p1', '-s', '-d', tmp, '-i', pfile], stdout=subprocess.PIPE, stderr=subprocess.STDOUT, text=True)
            if r.returncode != 0:
                return v['name'], 'stale', 'patch does not apply: ' + r.stdout.strip()[-200:]
        elif v.get('shift'):
            for f in anchored_files(pid, repo):
                p = os.path.join(tmp, f)
                s = open(p).read()
                head = '## selftest: lines shifted\n\n\n' if f.endswith('.mako') else '# selftest: lines shifted\n\n\n'
                if s.startswith('#!') or s.startswith('# cython') or s.startswith('#cython') or s.startswith('# -*-'):
                    first, _, rest = s.partition('\n')
                    s = first + '\n' + head + rest
                else:
                    s = head + s
                open(p, 'w').write(s)
        else:
            for ed in (v.get('edits') or [v]):
                p = os.path.join(tmp, ed['file'])
                s = open(p).read()
                if ed.get('regex'):
                    s2, n = re.subn(ed['find'], ed['replace'], s, flags=re.M)
                else:
                    n = s.count(ed['find'])
                    s2 = s.replace(ed['find'], ed['replace'])
                want = ed.get('count', 1)
                if n != want or s2 == s:
                    return v['name'], 'stale', 'text occurs %d times in %s, expected %d' % (n, ed['file'], want)
                open(p, 'w').write(s2)
        env = dict(os.environ, VERIF_REPO=tmp, VERIF_EVIDENCE_DIR=os.path.join(tmp, '_ev'), VERIF_SELFTEST_CHILD='1', VERIF_TIER='quick')
        r = subprocess.run([os.path.join(HERE, 'check'), pid, '--tier', 'quick'], stdout=subprocess.PIPE, stderr=subprocess.STDOUT, text=True, env=env, timeout=1500)
        lines = r.stdout.splitlines()
        fired = []
        for i, l in enumerate(lines):
            if l.startswith('VIOLATION') and i > 0:
                fired.append(lines[i - 1].strip().split(' ')[0])
        try:
            ev = json.load(open(os.path.join(tmp, '_ev', pid + '.json')))
            fired = [o['rule'] for o in ev['coverage'].get('new_violations', [])] or fired
        except Exception:
            pass
        fired = sorted(set(fired))
        if 'fires' in v:
            if r.returncode != 1:
                errs = [l for l in lines if l.startswith('ANALYSIS-ERROR')][:1]
                return v['name'], 'missed', 'exit %d, no violation reported %s' % (r.returncode, errs)
            if v['fires'] and not set(v['fires']) & set(fired):
                return v['name'], 'wrong-rule', 'fired %s, expected one of %s' % (fired, v['fires'])
            return v['name'], 'ok', 'fires %s' % ', '.join(fired)
        if r.returncode != 0:
            bad = [l for l in lines if l.startswith(('VIOLATION', 'ANALYSIS-ERROR'))][:2]
            return v['name'], 'false-alarm', 'exit %d on a behaviour-preserving edit: %s | %s' % (r.returncode, fired, bad)
        return v['name'], 'ok', 'silent'
    except subprocess.TimeoutExpired:
        return v['name'], 'timeout', ''
    finally:
        shutil.rmtree(tmp, ignore_errors=True)


def run(pid, repo, jobs=None):
    vs = load_variants(pid)
    vs.append({'name': 'shift-lines-of-anchored-files', 'shift': True, 'silent': True})
    jobs = jobs or min(16, os.cpu_count() or 4)
    with ThreadPoolExecutor(max_workers=jobs) as ex:
        return list(ex.map(lambda v: one(pid, v, repo), vs))
