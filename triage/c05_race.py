"""Triage only (not a check): show that a shipped equation which stores into a SOURCE array inside the
parallel destination loop (here rigid_body.PressureRigidBody: s_fx[s_idx] += ...) gives thread-dependent results.
One rigid-body particle is the neighbour of many fluid particles; the reaction force on it is the sum over
all of them.  Serial (OpenMP off) vs OpenMP with 16 threads, repeated.
Run: HOME=/tmp/c05_home /venv/bin/python triage/c05_race.py   (compiles two small modules, ~1-2 min)"""
import _overlay
import sys
import numpy as np
from compyle.config import get_config
from pysph.base.utils import get_particle_array
from pysph.base.kernels import CubicSpline
from pysph.base.nnps import LinkedListNNPS
from pysph.sph.acceleration_eval import AccelerationEval
from pysph.sph.sph_compiler import SPHCompiler
from pysph.sph.rigid_body import PressureRigidBody


def run(openmp, nthreads):
    cfg = get_config()
    cfg.use_openmp = openmp
    if openmp:
        from pysph.base.omp_threads import set_number_of_threads
        set_number_of_threads(nthreads)
    rng = np.random.default_rng(0)
    n = 20000
    fluid = get_particle_array(name='fluid', x=rng.random(n) * 0.02, y=rng.random(n) * 0.02, h=0.05, m=1.0, rho=1000.0)
    fluid.add_property('p')
    fluid.p[:] = rng.random(n) * 1000
    body = get_particle_array(name='body', x=[0.01], y=[0.01], h=0.05, m=1.0, rho=1000.0)
    for pn in ('fx', 'fy', 'fz', 'p', 'V'):
        body.add_property(pn)
    body.V[:] = 1.0
    fluid.add_property('V')
    fluid.V[:] = 1.0
    eqs = [PressureRigidBody(dest='fluid', sources=['body'], rho0=1000.0)]
    a = AccelerationEval([fluid, body], eqs, CubicSpline(dim=2))
    comp = SPHCompiler(a, None)
    comp.compile()
    nn = LinkedListNNPS(dim=2, particles=[fluid, body], radius_scale=2.0)
    a.set_nnps(nn)
    out = []
    for k in range(8):
        body.fx[:] = 0.0
        a.compute(0.0, 0.1)
        out.append(float(body.fx[0]))
    return out


serial = run(False, 1)
par = run(True, 16)
print('serial  fx:', sorted(set(serial)))
print('openmp  fx:', sorted(set(par)))
ref = serial[0]
worst = max(abs(v - ref) / abs(ref) for v in par)
print('relative deviation of OpenMP runs from serial: %.3e' % worst)
print('C05 race:', 'REPRODUCED (updates lost, results differ run to run)' if worst > 1e-6 or len(set(par)) > 1 else 'not observed in this run')
