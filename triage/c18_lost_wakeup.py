import _overlay
import threading, time, sys
from pysph.solver.controller import CommandManager
class S: 
    count=0; particles=[]
def run(name, fn, t=3.0):
    th=threading.Thread(target=fn, daemon=True); th.start(); th.join(t); return not th.is_alive()
# --- Lost wake-up: pause_on_next; solver reaches control point (notifies plock with nobody waiting); then interface calls wait()
cm=CommandManager(S())
iface_done=[]
def iface():
    cm.pause_on_next()           # interface thread id recorded
    time.sleep(0.5)              # solver reaches its control point meanwhile
    cm.wait()                    # expected to return: solver IS paused
    iface_done.append(1)
    cm.cont()
ti=threading.Thread(target=iface, daemon=True); ti.start()
time.sleep(0.1)
ts=threading.Thread(target=lambda: cm.execute_commands(S()), daemon=True); ts.start()   # solver control point
ti.join(3.0)
print('lost wake-up: wait() returned =', bool(iface_done), '(solver paused =', ts.is_alive(), ')')
