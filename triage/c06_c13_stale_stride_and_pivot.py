"""Triage only (not a check).  Run with the pre-built extension copy:
PYTHONPATH=/repo/build/lib.linux-x86_64-cpython-312 /venv/bin/python <this file>"""
import _overlay
from pysph.base.particle_array import ParticleArray
pa = ParticleArray(name='f', x=[1., 2., 3.])
pa.add_property('A', stride=3)
pa.remove_property('A')
pa.add_property('A')                      # stride 1 requested
pa.extend(2)
print('C06: particles', pa.get_number_of_particles(), 'len(A)', pa.get_carray('A').length,
      'stride map', pa.stride, '-> expected len(A) == 5')
from pysph.sph.wc.linalg import gj_solve
m = [0., 1., 2., 1., 0., 3.]; res = [0., 0.]
print('C13: gj_solve([[0,1],[1,0]] | [2,3]) returns', gj_solve(m, 2, 1, res), res, '-> expected 0.0 and [3, 2]')
