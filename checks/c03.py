"""C03 - groups run in the documented order over the documented particles (static rules, DESIGN.md C03)."""
import ast
import itertools
import os
import sys

sys.path.insert(0, os.path.dirname(os.path.dirname(os.path.abspath(__file__))))
from verif_static.core import run_check, AnalysisError, REPO  # noqa
from verif_static import model as M, cfg as C, makotree as MT, cy2ast  # noqa
from verif_static import emit as EM, absint as AI, norm as N  # noqa

TPL = 'pysph/sph/acceleration_eval_cython.mako'
AH = 'pysph/sph/acceleration_eval_cython_helper.py'
AE = 'pysph/sph/acceleration_eval.py'
EQ = 'pysph/sph/equation.py'

# helper call behind a placeholder -> phase name
PHASE = {'helper.get_pre_call': 'pre', 'helper.get_dest_array_setup': 'dest_setup', 'all_eqs.get_py_initialize_code': 'py_initialize',
         'all_eqs.get_initialize_code': 'initialize', 'eqs_with_no_source.get_loop_code': 'loop_no_source',
         'helper.get_src_array_setup': 'src_setup', 'eq_group.get_initialize_pair_code': 'initialize_pair',
         'eq_group.get_loop_all_code': 'loop_all', 'eq_group.get_loop_code': 'loop', 'all_eqs.get_post_loop_code': 'post_loop',
         'all_eqs.get_reduce_code': 'reduce', 'helper.get_post_call': 'post', 'helper.get_parallel_range': 'drange',
         'helper.get_parallel_block': 'parallel_block', 'eq_group.get_variable_array_setup': 'scratch_setup',
         'helper.get_condition_call': 'condition', 'helper.get_iteration_init': 'iter_init', 'helper.get_iteration_check': 'iter_check',
         'do_group': 'do_group'}
GUARD = {'initialize': 'all_eqs.has_initialize()', 'loop_no_source': 'eqs_with_no_source.has_loop()',
         'initialize_pair': 'eq_group.has_initialize_pair()', 'loop_all': 'eq_group.has_loop_all()', 'loop': 'eq_group.has_loop()',
         'post_loop': 'all_eqs.has_post_loop()', 'reduce': 'all_eqs.has_reduce()', 'pre': 'group.pre', 'post': 'group.post'}


def U(n):
    return M.unparse(n)


def compact(n):
    return U(n).replace(' ', '')


def shape(tpl, fname, choose=None, unroll=None, on_iteration=None):
    fn = tpl.fn(fname)
    lines = MT.skeleton(fn, choose=choose, unroll=unroll, on_iteration=on_iteration)
    src, table = MT.skeleton_source(lines)
    mod = cy2ast.cy_string_to_ast(REPO, src, '%s:%s' % (TPL, fname))
    for n in ast.walk(mod):
        ln = getattr(n, 'lineno', None)
        if ln and 1 <= ln <= len(lines):
            n.sline = ln
            n.tline = lines[ln - 1].tline or 0
    for n in ast.walk(mod):
        if hasattr(n, 'tline'):
            n.lineno = n.tline
    return lines, table, mod


def phase_of(table, node):
    """(phase, Line, expr) if the statement/expression is a placeholder for a known helper call"""
    for x in ast.walk(node):
        nm = x.id if isinstance(x, ast.Name) else None
        if nm in table:
            l, e = table[nm]
            for c in M.calls(e):
                cn = M.call_name(c)
                if cn in PHASE:
                    return PHASE[cn], l, e, c
    return None


def literal_call(node, name):
    return isinstance(node, ast.Expr) and isinstance(node.value, ast.Call) and M.call_name(node.value) == name


def rule_do_group(chk, tpl):
    lines, table, mod = shape(tpl, 'do_group')
    g = C.build_cfg(mod)
    ev = {}
    for n in g.nodes:
        if n.ast is None or not isinstance(n.ast, (ast.Expr, ast.For, ast.With)):
            continue
        tgt = n.ast.value if isinstance(n.ast, ast.Expr) else n.ast.iter if isinstance(n.ast, ast.For) else n.ast.items[0].context_expr
        p = phase_of(table, tgt)
        if p is not None:
            ev.setdefault(p[0], []).append((n, p))
        for nm in ('nnps.set_context', 'nnps.update_domain', 'nnps.update', 'nnps.get_nearest_neighbors'):
            if literal_call(n.ast, nm):
                ev.setdefault(nm, []).append((n, None))
    need = ['pre', 'dest_setup', 'py_initialize', 'initialize', 'loop_no_source', 'src_setup', 'initialize_pair', 'nnps.set_context',
            'nnps.get_nearest_neighbors', 'loop_all', 'loop', 'post_loop', 'reduce', 'nnps.update_domain', 'nnps.update', 'post']
    for k in need:
        if len(ev.get(k, [])) != 1:
            chk.violated('phase-order', 'emits-once:' + k, node=mod, file=TPL, func='do_group',
                         detail='phase %s is emitted %d times in do_group (expected exactly once per destination/source)' % (k, len(ev.get(k, []))))
            return
    nid = dict((k, ev[k][0][0].id) for k in need)
    # documented order = dominance chain in the emitted shape
    # the emitted text is a linearisation: textual position = execution order within a block (nesting is checked below)
    # positions in the order of emission (line of the lowered skeleton; the template line is kept for the report: a block factored out into another def is emitted at its call site)
    pos = dict((k, (getattr(ev[k][0][0].ast, 'sline', ev[k][0][0].ast.lineno), getattr(ev[k][0][0].ast, 'col_offset', 0))) for k in need)
    for a, b in zip(need, need[1:]):
        chk.decide(pos[a] < pos[b], 'phase-order', '%s<%s' % (a, b), node=ev[b][0][0].ast, file=TPL, func='do_group',
                   detail_bad='%s (template line %d) is emitted before %s (line %d)' % (b, pos[b][0], a, pos[a][0]),
                   detail_ok='line %d < line %d' % (pos[a][0], pos[b][0]))
    # nesting in the emitted loops
    def enclosing_for(node):
        out = []
        p = getattr(node, 'parent', None)
        while p is not None:
            if isinstance(p, ast.For):
                out.append(p)
            p = getattr(p, 'parent', None)
        return out
    def is_drange(f):
        p = phase_of(table, f.iter)
        return p is not None and p[0] == 'drange'
    for k in ('initialize', 'loop_no_source', 'initialize_pair', 'post_loop'):
        fs = enclosing_for(ev[k][0][0].ast)
        chk.decide(len(fs) == 1 and is_drange(fs[0]) and U(fs[0].target) == 'd_idx', 'phase-nesting', k, node=ev[k][0][0].ast, file=TPL,
                   func='do_group', detail_bad='%s is not executed once per destination index (loops: %s)' % (k, [U(f.target) for f in fs]),
                   detail_ok='inside the destination loop only')
    fs = enclosing_for(ev['loop'][0][0].ast)
    ok = len(fs) == 2 and compact(fs[0].iter) == 'range(N_NBRS)' and U(fs[0].target) == 'nbr_idx' and is_drange(fs[1])
    chk.decide(ok, 'phase-nesting', 'loop', node=ev['loop'][0][0].ast, file=TPL, func='do_group',
               detail_bad='loop() is not inside `for nbr_idx in range(N_NBRS)` inside the destination loop', detail_ok='neighbour loop inside destination loop')
    fs = enclosing_for(ev['loop_all'][0][0].ast)
    ok = len(fs) == 1 and is_drange(fs[0])
    chk.decide(ok, 'phase-nesting', 'loop_all', node=ev['loop_all'][0][0].ast, file=TPL, func='do_group',
               detail_bad='loop_all() is not outside the neighbour loop and inside the destination loop', detail_ok='once per destination index, before the neighbour loop')
    for k in ('reduce', 'py_initialize', 'dest_setup', 'src_setup', 'pre', 'post', 'nnps.update', 'nnps.update_domain', 'nnps.set_context'):
        chk.decide(not enclosing_for(ev[k][0][0].ast), 'phase-nesting', k, node=ev[k][0][0].ast, file=TPL, func='do_group',
                   detail_bad='%s is emitted inside a particle loop' % k, detail_ok='outside all particle loops')
    # no phase is skipped at run time: the emitted code puts no `if` of its own around a phase (whether a group / an equation takes part is decided when the code is
    # generated; a test on run-time quantities - the source is empty, the domain is not periodic - silently drops calls the documented order promises, e.g. loop_all for
    # destinations without neighbours, or the cell-size refresh that update_domain() performs for every kind of domain)
    def enclosing_if(node):
        out = []
        p = getattr(node, 'parent', None)
        while p is not None:
            if isinstance(p, (ast.If, ast.While)):
                out.append(p)
            p = getattr(p, 'parent', None)
        return out
    for k in need:
        ifs = enclosing_if(ev[k][0][0].ast)
        chk.decide(not ifs, 'phase-guards', 'no-run-time-test-around:' + k, node=ev[k][0][0].ast, file=TPL, func='do_group',
                   detail_bad='%s is emitted under the run-time test `%s`: when it is false the phase is silently skipped' % (k, U(ifs[0].test)[:80] if ifs else ''),
                   detail_ok='unconditional in the emitted code')
    # neighbour loop visits every neighbour returned for d_idx
    dl = enclosing_for(ev['loop'][0][0].ast)[1] if len(enclosing_for(ev['loop'][0][0].ast)) == 2 else None
    if dl is not None:
        stm = dict((U(a.targets[0]), compact(a.value)) for a in ast.walk(dl) if isinstance(a, ast.Assign))
        q = [c for c in M.calls(dl) if M.call_name(c) == 'nnps.get_nearest_neighbors']
        ok = stm.get('N_NBRS') == 'self.nbrs[thread_id].length' and stm.get('NBRS') == 'self.nbrs[thread_id].data' and \
            stm.get('s_idx') == 'NBRS[nbr_idx]' and bool(q) and compact(q[0]) == 'nnps.get_nearest_neighbors(d_idx,self.nbrs[thread_id])'
        chk.decide(ok, 'all-neighbours-contribute', 'neighbour-loop', node=dl, file=TPL, func='do_group',
                   detail_bad='s_idx does not range over all neighbours returned for d_idx into this thread\'s buffer: %s' % stm,
                   detail_ok='s_idx = NBRS[0..N_NBRS) of the list queried for d_idx')
        tid = [a for a in ast.walk(mod) if isinstance(a, ast.Assign) and U(a.targets[0]) == 'thread_id']
        chk.decide(bool(tid) and compact(tid[0].value) == 'threadid()' and M.enclosing(tid[0], (ast.With,)) is not None and
                   any(tid[0] is x for x in ast.walk(M.enclosing(dl, (ast.With,)) or mod)), 'all-neighbours-contribute', 'per-thread-buffer',
                   node=tid[0] if tid else dl, file=TPL, func='do_group', detail_bad='thread_id is not threadid() taken inside the parallel block',
                   detail_ok='thread_id = threadid() inside the parallel block')
    # guards and receivers
    for k, want in sorted(GUARD.items()):
        n, (ph, l, e, c) = ev[k][0]
        gd = [compact(x) for x in l.guards]
        chk.decide(want.replace(' ', '') in gd, 'phase-guards', k, node=n.ast, file=TPL, func='do_group',
                   detail_bad='%s is emitted under %s, expected %s' % (k, gd, want), detail_ok=want)
    # template loops: per-destination and per-source extents
    def tloops(k):
        return [compact(x.iter) for x in ev[k][0][1][1].loops] if ev[k][0][1] is not None else None
    for k in ('dest_setup', 'py_initialize', 'initialize', 'loop_no_source', 'post_loop', 'reduce'):
        chk.decide(tloops(k) == ['group.data.items()'], 'phase-extent', k, node=ev[k][0][0].ast, file=TPL, func='do_group',
                   detail_bad='%s is emitted in template loops %s (expected once per destination)' % (k, tloops(k)), detail_ok='per destination')
    for k in ('src_setup', 'initialize_pair', 'loop_all', 'loop'):
        chk.decide(tloops(k) == ['group.data.items()', 'sources.items()'], 'phase-extent', k, node=ev[k][0][0].ast, file=TPL, func='do_group',
                   detail_bad='%s is emitted in template loops %s (expected per destination, per source)' % (k, tloops(k)), detail_ok='per destination and source')
    for k in ('pre', 'post'):
        chk.decide(tloops(k) == [], 'phase-extent', k, node=ev[k][0][0].ast, file=TPL, func='do_group',
                   detail_bad='%s is emitted inside template loops %s (must run once per pass)' % (k, tloops(k)), detail_ok='once per pass')
    # update_nnps guard
    for nm in ('nnps.update_domain', 'nnps.update'):
        n = ev[nm][0][0]
        ln = [lines[n.ast.sline - 1]] if getattr(n.ast, 'sline', None) else [l for l in lines if l.tline == n.ast.lineno]
        gd = [compact(x) for x in ln[0].guards] if ln else []
        chk.decide(gd == ['group.update_nnps'] and not ln[0].loops, 'phase-guards', nm, node=n.ast, file=TPL, func='do_group',
                   detail_bad='%s emitted under %s / loops %s' % (nm, gd, [U(x.iter) for x in ln[0].loops] if ln else None), detail_ok='if group.update_nnps, once per pass')
    chk.decide(pos['nnps.update_domain'] < pos['nnps.update'], 'phase-order', 'ghosts-before-neighbours', node=ev['nnps.update'][0][0].ast,
               file=TPL, func='do_group', detail_bad='neighbours are rebuilt before ghosts are refreshed', detail_ok='update_domain then update')
    # every destination loop uses the group's range; context set with (src, dst)
    n = 0
    for f in [x for x in ast.walk(mod) if isinstance(x, ast.For) and U(x.target) == 'd_idx']:
        n += 1
        p = phase_of(table, f.iter)
        ok = p is not None and p[0] == 'drange' and U(p[3].args[0]) == 'group'
        chk.decide(ok, 'destination-range', 'loop@%d' % f.lineno, node=f, file=TPL, func='do_group',
                   detail_bad='a destination loop does not use helper.get_parallel_range(group)', detail_ok='get_parallel_range(group)')
    chk.floor('destination loops in do_group', n, 5)
    sc = ev['nnps.set_context'][0][0].ast.value
    chk.decide([U(a) for a in sc.args] == ['src_array_index', 'dst_array_index'], 'phase-order', 'context-arguments', node=sc, file=TPL, func='do_group',
               detail_bad='nnps.set_context(%s)' % ', '.join(U(a) for a in sc.args), detail_ok='(src_array_index, dst_array_index)')
    idx = dict((U(a.targets[0]), compact(a.value)) for a in ast.walk(mod) if isinstance(a, ast.Assign) and U(a.targets[0]).endswith('_array_index'))
    chk.decide(idx == {'dst_array_index': 'dst.index', 'src_array_index': 'src.index'}, 'phase-order', 'context-indices', node=mod, file=TPL, func='do_group',
               detail_bad=str(idx), detail_ok=str(idx))


def positive(test):
    """(text of the predicate a template test asks about, whether the test negates it): `not P`, `P is None` for `P is not None`"""
    neg = False
    while isinstance(test, ast.UnaryOp) and isinstance(test.op, ast.Not):
        test, neg = test.operand, not neg
    if isinstance(test, ast.Compare) and len(test.ops) == 1 and isinstance(test.ops[0], ast.Is) and isinstance(test.comparators[0], ast.Constant) and test.comparators[0].value is None:
        return U(ast.Compare(left=test.left, ops=[ast.IsNot()], comparators=test.comparators)), not neg
    return U(test), neg


def simplest(test):
    """the simplest group configuration: every template predicate false except that the group has equations"""
    t, neg = positive(test)
    v = t == 'len(group.data) > 0'
    return (not v) if neg else v


def rule_top(chk, tpl):
    """the compute() body: enumerate the template's own branch predicates exhaustively"""
    top = tpl.fn('__template__')
    tests = []
    for n in ast.walk(top):
        if isinstance(n, ast.If):
            t = positive(n.test)[0]           # `% if not group.has_subgroups:` asks about the same predicate as `% if group.has_subgroups:`
            if ('group' in t) and t not in tests:
                tests.append(t)
    chk.unit('template predicates of compute()', tests)
    if len(tests) > 10:
        raise AnalysisError('too many template predicates to enumerate: %d' % len(tests))
    nconf = 0
    bad_conf = {}
    for vals in itertools.product([True, False], repeat=len(tests)):
        conf = dict(zip(tests, vals))
        if not conf.get('len(group.data) > 0', True):
            continue
        if chk.tier == 'quick':
            # quick tier: skip configurations that differ only in openmp/mode switches (not group predicates)
            pass
        def choose(test, conf=conf):
            t, neg = positive(test)
            v = conf.get(t, True if 'use_openmp' not in t else False)
            return (not v) if neg else v
        nconf += 1
        label = ','.join(k.replace('group.', '').replace(' is not None', '') for k, v in conf.items() if v and 'len(' not in k) or 'plain'
        try:
            lines, table, mod = shape(tpl, '__template__', choose)
        except cy2ast.FrontEndError as e:
            bad_conf.setdefault('emitted-text-not-valid-cython', []).append((label, str(e)[-120:]))
            continue
        cls = M.find_class(mod, 'AccelerationEval')
        fn = M.find_func(cls, 'compute')
        # collect events with their enclosing block chain
        evs = []
        for s in ast.walk(fn):
            if isinstance(s, (ast.Expr, ast.If, ast.With)):
                tgt = s.value if isinstance(s, ast.Expr) else s.test if isinstance(s, ast.If) else s.items[0].context_expr
                p = phase_of(table, tgt)
                kind = p[0] if p else None
                if kind is None:
                    for nm in ('nnps.update_domain', 'nnps.update'):
                        if literal_call(s, nm):
                            kind = nm
                if kind:
                    evs.append((kind, s, p))
        evs.sort(key=lambda e: (getattr(e[1], 'sline', e[1].lineno), getattr(e[1], 'col_offset', 0)))

        def inside(a, b):
            return any(a is x for x in ast.walk(b)) and a is not b
        def first(kind, which=0):
            xs = [e for e in evs if e[0] == kind]
            return xs[which] if len(xs) > which else None
        cond = [e for e in evs if e[0] == 'condition' and U(e[2][3].args[0]) == 'group']
        itin = first('iter_init')
        itck = first('iter_check')
        body_events = [e for e in evs if e[0] in ('do_group', 'pre', 'post', 'nnps.update', 'nnps.update_domain', 'iter_init', 'iter_check')]
        # (a) the group's condition encloses everything of the group
        if conf.get('group.condition is not None'):
            if not cond:
                bad_conf.setdefault('condition-wraps-group', []).append((label, 'no condition test emitted'))
            else:
                out = [e[0] for e in body_events if not inside(e[1], cond[0][1])]
                if out:
                    bad_conf.setdefault('condition-wraps-group', []).append(
                        (label, '%s emitted outside `if <group condition>` (template line %d): runs although the condition is false' % (
                            sorted(set(out)), [e[1].lineno for e in body_events if not inside(e[1], cond[0][1])][0])))
        # (b) the iteration loop encloses the work and ends with the check
        if conf.get('group.iterate'):
            if not itin or not itck or not isinstance(itin[1], ast.With):
                bad_conf.setdefault('iteration-wraps-group', []).append((label, 'iteration init/check missing'))
            else:
                out = [e[0] for e in body_events if e[0] not in ('iter_init',) and not inside(e[1], itin[1])]
                if out:
                    bad_conf.setdefault('iteration-wraps-group', []).append((label, '%s outside the iteration loop' % sorted(set(out))))
                elif itin[1].body[-1] is not itck[1]:
                    bad_conf.setdefault('iteration-wraps-group', []).append((label, 'convergence check is not the last statement of a pass'))
        # (c) sub-groups: pre before, sub-groups in order each under its own condition, update/post after
        dgs = [e for e in evs if e[0] == 'do_group']
        if conf.get('group.has_subgroups'):
            if not dgs or U(dgs[0][2][3].args[1]) != 'sub_group':
                bad_conf.setdefault('subgroups', []).append((label, 'sub-groups are not emitted through do_group(helper, sub_group, ...)'))
            else:
                l = dgs[0][2][1]
                if [compact(x.iter) for x in l.loops][-1:] != ['enumerate(group.data)']:
                    bad_conf.setdefault('subgroups', []).append((label, 'sub-groups are not emitted in the order of group.data'))
                sc = [e for e in evs if e[0] == 'condition' and U(e[2][3].args[0]) == 'sub_group']
                if conf.get('sub_group.condition is not None'):
                    if not sc or not inside(dgs[0][1], sc[0][1]):
                        bad_conf.setdefault('subgroups', []).append((label, 'sub-group is not wrapped by its own condition'))
                order = [e[0] for e in evs if e[0] in ('pre', 'do_group', 'nnps.update_domain', 'nnps.update', 'post')]
                want = [k for k in ['pre', 'do_group', 'nnps.update_domain', 'nnps.update', 'post']
                        if (k != 'pre' or conf.get('group.pre')) and (k != 'post' or conf.get('group.post'))
                        and (not k.startswith('nnps') or conf.get('group.update_nnps'))]
                if order != want:
                    bad_conf.setdefault('subgroups', []).append((label, 'parent phases emitted as %s, expected %s' % (order, want)))
        else:
            if not dgs or U(dgs[0][2][3].args[1]) != 'group' or len(dgs) != 1:
                bad_conf.setdefault('plain-group', []).append((label, 'group body is not emitted exactly once through do_group(helper, group, ...)'))
            stray = [e[0] for e in evs if e[0] in ('pre', 'post', 'nnps.update', 'nnps.update_domain')]
            if stray:
                bad_conf.setdefault('plain-group', []).append((label, '%s emitted both by compute() and by do_group' % stray))
        # groups in order
        gl = [l for l in lines if any(compact(x.iter) == 'enumerate(helper.object.mega_groups)' for x in l.loops)]
        if not gl:
            bad_conf.setdefault('groups-in-order', []).append((label, 'groups are not emitted by iterating mega_groups in order'))
    # (d) a sequence of sub-groups: each is wrapped by its own condition only - state of the template (indent level) must not leak from one sub-group into the next
    seq_bad = []
    nseq = 0
    for first_c, second_c in itertools.product([True, False], repeat=2):
        state = {'k': 0}

        def on_it(loop, k, state=state):
            if compact(loop.iter) == 'enumerate(group.data)':
                state['k'] = k

        def choose2(test, state=state, first_c=first_c, second_c=second_c):
            t, neg = positive(test)
            if t == 'sub_group.condition is not None':
                v = first_c if state['k'] == 0 else second_c
            elif t in ('group.has_subgroups', 'len(group.data) > 0'):
                v = True
            elif t in tests:
                v = False
            else:
                v = 'use_openmp' not in t
            return (not v) if neg else v
        nseq += 1
        try:
            lines2, table2, mod2 = shape(tpl, '__template__', choose2, unroll={'enumerate(group.data)': 2}, on_iteration=on_it)
        except cy2ast.FrontEndError as e:
            seq_bad.append(((first_c, second_c), 'emitted text is not valid Cython: %s' % str(e)[-100:]))
            continue
        fn2 = M.find_func(M.find_class(mod2, 'AccelerationEval'), 'compute')
        M.set_parents(fn2)
        dg, cds = [], []
        for s_ in ast.walk(fn2):
            if isinstance(s_, (ast.Expr, ast.If)):
                tgt = s_.value if isinstance(s_, ast.Expr) else s_.test
                ph = phase_of(table2, tgt)
                if ph and ph[0] == 'do_group' and U(ph[3].args[1]) == 'sub_group':
                    dg.append(s_)
                if ph and ph[0] == 'condition' and U(ph[3].args[0]) == 'sub_group' and isinstance(s_, ast.If):
                    cds.append(s_)
        order = sorted(dg, key=lambda x: getattr(x, 'sline', 0))
        if len(order) != 2 or len(cds) != int(first_c) + int(second_c):
            seq_bad.append(((first_c, second_c), 'expected two sub-group bodies and %d condition tests, found %d and %d' % (int(first_c) + int(second_c), len(order), len(cds))))
            continue

        def wrappers(node):
            out = []
            cur = getattr(node, 'parent', None)
            while cur is not None and cur is not fn2:
                if isinstance(cur, ast.If) and any(cur is c for c in cds):
                    out.append(cur)
                cur = getattr(cur, 'parent', None)
            return out
        w0, w1 = wrappers(order[0]), wrappers(order[1])
        if len(w0) != int(first_c) or len(w1) != int(second_c) or (w0 and w1 and w0[0] is w1[0]):
            seq_bad.append(((first_c, second_c), 'with (first sub-group conditional, second conditional) = (%s, %s) the bodies are wrapped by %d and %d sub-group conditions: '
                            'a sub-group that follows a conditional sibling runs (or not) under the sibling\'s condition' % (first_c, second_c, len(w0), len(w1))))
    if seq_bad:
        chk.violated('top-level-structure', 'subgroup-sequence', node=None, file=TPL, func='AccelerationEval.compute', line=0,
                     detail='%d of %d sequences, e.g. %s' % (len(seq_bad), nseq, seq_bad[0][1]))
    else:
        chk.holds('top-level-structure', 'subgroup-sequence', file=TPL, func='AccelerationEval.compute',
                  detail='two consecutive sub-groups, all 4 combinations of conditional / unconditional: each body under its own condition only')
    chk.unit('template configurations enumerated', nconf)
    chk.floor('template configurations', nconf, 64)
    for rule in ('emitted-text-not-valid-cython', 'condition-wraps-group', 'iteration-wraps-group', 'subgroups', 'plain-group', 'groups-in-order'):
        if rule in bad_conf:
            label, why = bad_conf[rule][0]
            chk.violated('top-level-structure', rule, node=None, file=TPL, func='AccelerationEval.compute', line=0,
                         detail='%d of %d template configurations, e.g. group with {%s}: %s' % (len(bad_conf[rule]), nconf, label, why))
        else:
            chk.holds('top-level-structure', rule, file=TPL, func='AccelerationEval.compute', detail='all %d configurations' % nconf)


def rule_regroup(chk):
    """MegaGroup._make_data on a model group (shared with C05: the order in which sources are visited fixes the floating-point summation order,
    so it must not depend on anything but the user's listing)"""
    ae = M.py(AE)
    md = M.find_method(ae, 'MegaGroup', '_make_data')
    # decided on a model run: _make_data is interpreted on a group of six model equations over three destinations, listed so that
    # neither destinations nor sources nor equations are in alphabetical / grouped order; the Group class is a model that records
    # its argument.  Expected: destinations by first appearance; per destination the equations without sources, the per-source
    # lists and the list of all equations, each in the order the user listed them.
    try:
        itm = EM.interpreter()
        EM.model_module(itm, '<g>', 'class G:\n    def __init__(self, equations):\n        self.equations = equations\n')

        def meq(name, dest, sources, hook=None):
            # sourced equations carry exactly one of the per-source hooks each, so that a filing rule that overlooks one kind misfiles one of them
            kw = {hook: EM.func('def %s(self, d_idx, s_idx):\n    pass' % hook)} if hook else {}
            return EM.mock(name=name, dest=dest, sources=sources, no_source=sources is None, **kw)
        eqs = [meq('e1', 'solid', ['solid', 'fluid'], 'initialize_pair'), meq('e2', 'fluid', None, 'initialize'), meq('e3', 'solid', None, 'post_loop'),
               meq('e4', 'solid', ['fluid'], 'loop'), meq('e5', 'fluid', ['solid'], 'loop_all'), meq('e6', 'boundary', ['fluid', 'boundary', 'solid'], 'loop'),
               meq('e7', 'solid', ['boundary', 'solid'], 'loop_all'), meq('e8', 'fluid', None, 'reduce')]
        mg = EM.instance(itm, AE, 'MegaGroup', Group=itm.lookup_global('<g>', 'G'))
        res = EM.call(itm, mg, '_make_data', EM.mock(equations=eqs, has_subgroups=False))
        itm.set_order_reversed = True
        res_rev = EM.call(itm, mg, '_make_data', EM.mock(equations=eqs, has_subgroups=False))
        itm.set_order_reversed = False

        def nm(g):
            x = g.args[0] if isinstance(g, AI.Inst) and g.args else g
            return [q.attrs.get('name') for q in x] if isinstance(x, list) else repr(x)
        def flat_(r_):
            return [(d, nm(v[0]), [(k, nm(g)) for k, g in v[1].items()], nm(v[2])) for d, v in r_.items()] if isinstance(r_, dict) else r_
        got = flat_(res)
        got_rev = flat_(res_rev)
        chk.decide(got == got_rev, 'regrouping-preserves-order', 'independent-of-set-order', node=md, file=AE, func='MegaGroup._make_data',
                   detail_bad='the regrouped structure depends on the iteration order of a set: %s with one order, %s with the opposite one - string hashing is randomised per process, '
                              'so the order of the per-source loops (and the floating-point summation order) changes from run to run' % (got, got_rev),
                   detail_ok='same structure, same order, whichever way sets are iterated')
        want = [('solid', ['e3'], [('solid', ['e1', 'e7']), ('fluid', ['e1', 'e4']), ('boundary', ['e7'])], ['e1', 'e3', 'e4', 'e7']),
                ('fluid', ['e2', 'e8'], [('solid', ['e5'])], ['e2', 'e5', 'e8']),
                ('boundary', [], [('fluid', ['e6']), ('boundary', ['e6']), ('solid', ['e6'])], ['e6'])]
        # the order of the *sources* of one destination is not documented: compare those as a mapping
        def norm_(x):
            return [(d, a, dict(m), c) for d, a, m, c in x] if isinstance(x, list) else x
        chk.decide(norm_(got) == norm_(want), 'regrouping-preserves-order', 'model-run', node=md, file=AE, func='MegaGroup._make_data',
                   detail_bad='for equations e1..e8 = %s the regrouping gives (destination, no-source, per-source, all) = %s; expected %s'
                              % ([(q.attrs['name'], q.attrs['dest'], q.attrs['sources']) for q in eqs], got, want),
                   detail_ok='8 model equations over 3 destinations: destinations by first appearance, every list in user order, one entry per source')
        # (the middle sub-group has no equations: it still carries its condition, pre / post callbacks and update_nnps refresh, which run between its neighbours)
        sg = [EM.mock(equations=eqs[:3], has_subgroups=False), EM.mock(equations=[], has_subgroups=False, pre='pre', post='post', update_nnps=True, condition=None),
              EM.mock(equations=eqs[3:], has_subgroups=False)]
        res2 = EM.call(itm, mg, '_make_data', EM.mock(equations=sg, has_subgroups=True))
        ok2 = isinstance(res2, list) and len(res2) == 3 and all(isinstance(x, AI.Inst) and x.cls.node.name == 'MegaGroup' for x in res2) and \
            [x.args[0] for x in res2] == sg
        chk.decide(ok2, 'regrouping-preserves-order', 'sub-groups-in-listed-order', node=md, file=AE, func='MegaGroup._make_data',
                   detail_bad='a group of three sub-groups, the middle one without equations but with pre / post callbacks and update_nnps, is regrouped as %s: expected one MegaGroup '
                              'per sub-group, in the listed order (the callbacks and the neighbour refresh of an empty sub-group still run)' % (res2,),
                   detail_ok='one MegaGroup per sub-group, in order')
    except (AI.Unsupported, AI.Raised) as e:
        chk.undecided('regrouping-preserves-order', 'model-run', node=md, file=AE, func='MegaGroup._make_data', detail='not interpretable on the model group: %s' % e)


def rule_iteration(chk):
    """iterated groups: limits, exit test, non short-circuit convergence over every equation (shared with C02: the compiled loop must call
    converged() of every equation in every pass, like the Python semantics the equations were written against)"""
    ah = M.py(AH)
    cls = M.find_class(ah, 'AccelerationEvalCythonHelper')
    it = EM.interpreter()
    helper = EM.instance(it, AH, 'AccelerationEvalCythonHelper')
    # iteration: what the generators emit for a model group (max 7, min 2, two equations / a group of two sub-groups), parsed as code
    ii = M.find_func(cls, 'get_iteration_init')
    ic = M.find_func(cls, 'get_iteration_check')
    eq = M.py(EQ)
    gc = M.find_method(eq, 'Group', 'get_converged_condition')
    import textwrap
    try:
        def eqn(v):
            return EM.mock(var_name=v)
        leaf_a = EM.instance(it, EQ, 'Group', has_subgroups=False, equations=[eqn('eq0'), eqn('eq1')])
        leaf_b = EM.instance(it, EQ, 'Group', has_subgroups=False, equations=[eqn('eq2')])
        top = EM.instance(it, EQ, 'Group', has_subgroups=True, equations=[leaf_a, leaf_b], max_iterations=7, min_iterations=2)
        flat = EM.instance(it, EQ, 'Group', has_subgroups=False, equations=[eqn('eq0'), eqn('eq1')], max_iterations=7, min_iterations=2)
        # a group iterated without a minimum (the default, 0): the limits are variables of compute() shared by all iterated groups, so every group sets both of them
        nomin = EM.instance(it, EQ, 'Group', has_subgroups=False, equations=[eqn('eq0'), eqn('eq1')], max_iterations=3, min_iterations=0)
        LIMITS = {'flat': ('7', '2'), 'nested': ('7', '2'), 'no-minimum': ('3', '0')}
        for label, g, nconv in (('flat', flat, 2), ('nested', top, 3), ('no-minimum', nomin, 2)):
            conv_text = EM.call(it, g, 'get_converged_condition')
            init = EM.call(it, helper, 'get_iteration_init', g)
            check = EM.call(it, helper, 'get_iteration_check', g)
            code = textwrap.dedent(init).rstrip() + '\n    __BODY__()\n' + textwrap.indent(textwrap.dedent(check), '    ')
            try:
                t = ast.parse(code)
                ce = ast.parse(conv_text.strip(), mode='eval').body
            except SyntaxError as e:
                chk.violated('iteration', 'check-parses:' + label, node=ic, file=AH, func='get_iteration_check', detail='emitted iteration code is not valid: %s\n%s' % (e, code))
                continue
            # convergence: non-short-circuit conjunction that calls converged() on every equation of every (sub)group
            terms = []

            def flat_and(x):
                if isinstance(x, ast.BinOp) and isinstance(x.op, ast.BitAnd):
                    flat_and(x.left)
                    flat_and(x.right)
                else:
                    terms.append(x)
            flat_and(ce)
            want_terms = ['self.eq%d.converged() > 0' % k for k in range(nconv)]
            okc = len(terms) == nconv and all(any(N.same(x, w) for x in terms) for w in want_terms)
            chk.decide(okc, 'iteration', 'all-equations-non-short-circuit:' + label, node=gc, file=EQ, func='Group.get_converged_condition',
                       detail_bad='convergence expression of a %s group with equations eq0..eq%d is `%s`: it must be the & (non short-circuit) conjunction of '
                                  '`self.<eq>.converged() > 0` over all equations / sub-groups' % (label, nconv - 1, conv_text), detail_ok=conv_text)
            # preamble
            pre = dict((U(st.targets[0]), st.value) for st in t.body if isinstance(st, ast.Assign) and len(st.targets) == 1)
            wh = [st for st in t.body if isinstance(st, ast.While)]
            okl = len(wh) == 1 and t.body[-1] is wh[0] and N.same(wh[0].test, 'True') and not wh[0].orelse and \
                pre.get('max_iterations') is not None and pre.get('min_iterations') is not None and \
                N.same(pre.get('max_iterations'), LIMITS[label][0]) and N.same(pre.get('min_iterations'), LIMITS[label][1]) and N.same(pre.get('_iteration_count'), '1')
            chk.decide(okl, 'iteration', 'init:' + label, node=ii, file=AH, func='get_iteration_init',
                       detail_bad='iteration preamble for (max %s, min %s) is %r: expected max_iterations and min_iterations set to these (the variables are shared by all iterated groups of compute(): a group that does not set its minimum inherits that of the group before), _iteration_count = 1, while True:' % (LIMITS[label] + (init,)),
                       detail_ok='limits from the group; count starts at 1; while True')
            if not wh:
                continue
            body = wh[0].body
            iff = [st for st in body if isinstance(st, ast.If)]
            want = '_iteration_count >= min_iterations and (__C__ or _iteration_count == max_iterations)'
            ok = False
            if len(iff) == 1:
                class Sub(ast.NodeTransformer):
                    def visit_BinOp(self, n):
                        if ast.dump(n) == ast.dump(ce):
                            return ast.Name(id='__C__', ctx=ast.Load())
                        return self.generic_visit(n)
                import copy
                test = Sub().visit(copy.deepcopy(iff[0].test))
                ok = N.same(test, want)
                # converged() may keep state between calls (iteration counters of pressure solvers): it is evaluated on every pass that is past the minimum, also on the one that
                # reaches the maximum - the limit test must not short-circuit it away
                for bo in [x for x in ast.walk(test) if isinstance(x, ast.BoolOp) and isinstance(x.op, ast.Or)]:
                    seen_max = False
                    for v_ in bo.values:
                        if any(isinstance(y, ast.Name) and y.id == '__C__' for y in ast.walk(v_)) and seen_max:
                            ok = False
                        if any(isinstance(y, ast.Name) and y.id == 'max_iterations' for y in ast.walk(v_)):
                            seen_max = True
            chk.decide(ok, 'iteration', 'exit-condition:' + label, node=ic, file=AH, func='get_iteration_check',
                       detail_bad='exit test is %s, documented: count >= min and (converged or count == max), converged = the group\'s own condition, evaluated before the limit test '
                                  '(converged() of an equation may keep state, it is called on the last allowed pass too)' % (U(iff[0].test) if iff else None), detail_ok=U(iff[0].test) if iff else '')
            if iff:
                ok = any(isinstance(x, ast.Break) for x in iff[0].body) and not iff[0].orelse
                inc = [st for st in body if isinstance(st, ast.AugAssign) and isinstance(st.op, ast.Add) and U(st.target) == '_iteration_count' and N.same(st.value, '1')]
                ok = ok and len(inc) == 1 and body.index(inc[0]) > body.index(iff[0])
                chk.decide(ok, 'iteration', 'count-incremented-after-check:' + label, node=ic, file=AH, func='get_iteration_check',
                           detail_bad='count is not incremented exactly once per pass after the exit test', detail_ok='break or count += 1')
    except (AI.Unsupported, AI.Raised) as e:
        chk.undecided('iteration', 'emitted', node=ic, file=AH, func='get_iteration_check', detail='generator not interpretable: %s' % e)


def rule_dispatch(chk):
    """the code emitted for a group's condition / pre / post callbacks addresses that very group (shared with C02: the emitted calls must run the user's callables of the
    group they were given for)"""
    ah = M.py(AH)
    cls = M.find_class(ah, 'AccelerationEvalCythonHelper')
    it = EM.interpreter()
    # dispatch map
    gm = M.find_func(cls, '_compute_group_map')
    try:
        # four model groups; the user-given names are labels for the profiler, not identities: two pairs of groups share a name
        sg0, sg1 = EM.mock(has_subgroups=False, name='stage'), EM.mock(has_subgroups=False, name='relax')
        g0, g1 = EM.mock(has_subgroups=False, data={}, name='relax'), EM.mock(has_subgroups=True, data=[sg0, sg1], name='stage')
        helper2 = EM.instance(it, AH, 'AccelerationEvalCythonHelper', object=EM.mock(mega_groups=[g0, g1]))
        EM.call(it, helper2, '_compute_group_map')
        wantg = [(g0, 'self.groups[0]'), (g1, 'self.groups[1]'), (sg0, 'self.groups[1].data[0]'), (sg1, 'self.groups[1].data[1]')]
        first_bad = None
        for nm, suffix in (('get_condition_call', '.condition(t, dt)'), ('get_pre_call', '.pre()'), ('get_post_call', '.post()')):
            f = M.find_func(cls, nm)
            got = [EM.call(it, helper2, nm, g) for g, w_ in wantg]
            okc = got == [w_ + suffix for g, w_ in wantg]
            first_bad = first_bad or (None if okc else (nm, got))
            chk.decide(okc, 'dispatch', nm, node=f, file=AH, func=nm,
                       detail_bad='for groups [g0 "relax", g1 "stage" with sub-groups sg0 "stage", sg1 "relax"] %s emits %s: group i must be addressed as self.groups[i] and its j-th sub-group as '
                                  'self.groups[i].data[j] (a group addressed through another group runs under that group\'s condition / pre / post)' % (nm, got), detail_ok='self.groups[i] / self.groups[i].data[j] + ' + suffix)
        chk.decide(first_bad is None, 'dispatch', 'group-map', node=gm, file=AH, func='_compute_group_map',
                   detail_bad='%s emits %s' % (first_bad or ('', '')), detail_ok='every group and sub-group addressed by its own position')
    except (AI.Unsupported, AI.Raised) as e:
        if getattr(e, 'raised', None) is not None or isinstance(e, AI.Raised):
            # the generator itself raises for a legitimate set of groups (g0 is a group without equations)
            chk.violated('dispatch', 'group-map', node=gm, file=AH, func='_compute_group_map', detail='for groups [g0 (no equations), g1 with sub-groups sg0, sg1] the generator fails: %s' % e)
        else:
            chk.undecided('dispatch', 'group-map', node=gm, file=AH, func='_compute_group_map', detail='generator not interpretable: %s' % e)


def rule_bounds(chk):
    """what get_dest_array_setup / get_src_array_setup emit for generic groups (model run; shared with C02: the range of destinations a group's loop visits)"""
    ah = M.py(AH)
    cls = M.find_class(ah, 'AccelerationEvalCythonHelper')
    ds = M.find_func(cls, 'get_dest_array_setup')
    ss = M.find_func(cls, 'get_src_array_setup')
    # what the generators emit for generic groups: every combination of a missing / named / numeric start and stop index, real or all particles
    it = EM.interpreter()
    helper = EM.instance(it, AH, 'AccelerationEvalCythonHelper')

    def names(src_names, dst_names):
        return lambda interp, args, kwargs, node, env: (set(src_names), set(dst_names))
    cases = []
    for start, wstart in ((0, 'D_START_IDX = 0'), (5, 'D_START_IDX = 5'), ('n0', 'D_START_IDX = self.fluid.n0[0]')):
        for stop, real, wstop in ((None, True, 'NP_DEST = self.fluid.size(real=True)'), (None, False, 'NP_DEST = self.fluid.size(real=False)'),
                                  (7, True, 'NP_DEST = 7'), (0, True, 'NP_DEST = 0'), ('n1', False, 'NP_DEST = self.fluid.n1[0]')):
            cases.append((start, stop, real, wstart, wstop))
    bad = []
    try:
        for start, stop, real, wstart, wstop in cases:
            grp = EM.mock(start_idx=start, stop_idx=stop, real=real)
            nos = EM.mock(get_array_names=names(['s_q'], ['d_x', 'd_au']))
            srcs = {'solid': EM.mock(get_array_names=names(['s_x', 's_m'], ['d_rho', 'd_x']))}
            text = EM.call(it, helper, 'get_dest_array_setup', 'fluid', nos, srcs, grp)
            ls = [l.strip() for l in text.splitlines() if l.strip()]
            want = [wstart, wstop] + ['%s = dst.%s.data' % (n, n[2:]) for n in sorted(['d_x', 'd_au', 'd_rho'])]
            if ls != want:
                bad.append(((start, stop, real), ls))
        chk.decide(not bad, 'destination-range', 'emitted-bounds-and-pointers', node=ds, file=AH, func='get_dest_array_setup',
                   detail_bad='for (start_idx, stop_idx, real) = %s the generator emits %s; expected D_START_IDX = <start | self.<dest>.<name>[0]>, NP_DEST = <self.<dest>.size(real=<real>) | '
                              'stop | self.<dest>.<name>[0]>, then one `d_x = dst.x.data` line per destination array of the equations with and without sources'
                              % (bad[0][0] if bad else None, bad[0][1] if bad else None),
                   detail_ok='%d combinations of start / stop / real: bounds and destination pointers as documented' % len(cases))
        text = EM.call(it, helper, 'get_src_array_setup', 'solid', EM.mock(get_array_names=names(['s_x', 's_m'], ['d_rho'])))
        ls = [l.strip() for l in text.splitlines() if l.strip()]
        ok = ls == ['NP_SRC = self.solid.size()', 's_m = src.m.data', 's_x = src.x.data']
        chk.decide(ok, 'all-neighbours-contribute', 'NP_SRC-all-particles', node=ss, file=AH, func='get_src_array_setup',
                   detail_bad='for a source `solid` with arrays s_x, s_m the generator emits %s: the source range must be all particles (real and ghost) and every source array bound to src.<name>' % ls,
                   detail_ok='NP_SRC = self.<src>.size(); s_x = src.x.data ...')
    except (AI.Unsupported, AI.Raised) as e:
        chk.undecided('destination-range', 'emitted-bounds-and-pointers', node=ds, file=AH, func='get_dest_array_setup', detail='generator not interpretable: %s' % e)


def rule_helpers(chk):
    rule_bounds(chk)
    cls = M.find_class(M.py(AH), 'AccelerationEvalCythonHelper')
    pr = M.find_func(cls, 'get_parallel_range')
    rets = [r for r in ast.walk(pr) if isinstance(r, ast.Return)]
    ok = len(rets) == 1 and isinstance(rets[0].value, ast.Call) and M.call_name(rets[0].value) == 'get_parallel_range' and \
        [U(a) for a in rets[0].value.args] == ["'D_START_IDX'", "'NP_DEST'"]
    chk.decide(ok, 'destination-range', 'range-uses-bounds', node=pr, file=AH, func='get_parallel_range',
               detail_bad='range is not built from D_START_IDX..NP_DEST', detail_ok='get_parallel_range("D_START_IDX", "NP_DEST")')
    rule_iteration(chk)
    rule_dispatch(chk)
    scm = M.find_func(cls, 'setup_compiled_module')
    c = [x for x in M.calls(scm) if M.call_name(x) == 'module.AccelerationEval']
    from verif_static import norm as N_
    ld_ = N_.local_defs(scm.body)
    ok = bool(c) and [compact(N_.inline(a, ld_)) for a in c[0].args] == ['self.object.kernel', 'self.object.all_group.equations', 'self.object.particle_arrays', 'self.object.mega_groups']
    chk.decide(ok, 'dispatch', 'constructor-arguments', node=scm, file=AH, func='setup_compiled_module',
               detail_bad='compiled AccelerationEval(%s)' % (', '.join(U(a) for a in c[0].args) if c else ''), detail_ok='(kernel, equations, particle_arrays, mega_groups)')
    # regrouping keeps user order
    ae = M.py(AE)
    md = M.find_method(ae, 'MegaGroup', '_make_data')
    rule_regroup(chk)
    # (that an equation with sources is filed under each of its sources whatever per-source hook it has is part of the model run: e1, e4..e7 carry one kind of hook each)
    gcode = M.find_method(M.py(EQ), 'CythonGroup', '_get_code')
    l2 = [l for l in ast.walk(gcode) if isinstance(l, ast.For) and compact(l.iter) == 'self.equations']
    chk.decide(bool(l2), 'regrouping-preserves-order', 'calls-in-equation-order', node=gcode, file=EQ, func='CythonGroup._get_code',
               detail_bad='calls are not generated by iterating self.equations in order', detail_ok='for eq in self.equations')
    # ParticleArrayWrapper.size forwards real
    return


def rule_wrapper(chk, tpl):
    # the simplest group configuration: only the classes around compute() matter here
    lines, table, mod = shape(tpl, '__template__', simplest)
    w = M.find_class(mod, 'ParticleArrayWrapper')
    sz = M.find_func(w, 'size')
    rets = [compact(r.value) for r in ast.walk(sz) if isinstance(r, ast.Return)]
    chk.decide(rets == ['self.array.get_number_of_particles(real)'], 'destination-range', 'wrapper.size-forwards-real', node=sz, file=TPL,
               func='ParticleArrayWrapper.size', detail_bad='size() returns %s' % rets, detail_ok='get_number_of_particles(real)')
    ae = M.find_class(mod, 'AccelerationEval')
    init = M.find_func(ae, '__init__')
    st = dict((U(a.targets[0]), compact(a.value)) for a in ast.walk(init) if isinstance(a, ast.Assign))
    chk.decide(st.get('self.groups') == 'groups' and M.arg_names(init) == ['self', 'kernel', 'equations', 'particle_arrays', 'groups'], 'dispatch',
               'template-init-signature', node=init, file=TPL, func='AccelerationEval.__init__', detail_bad='%s / self.groups=%s' % (M.arg_names(init), st.get('self.groups')),
               detail_ok='(kernel, equations, particle_arrays, groups); self.groups = groups')

    # new arrays are handed to the *existing* wrapper objects (set_array): the compiled integrator keeps references to these very objects (self.<name> = acceleration_eval.<name>),
    # a wrapper that is replaced leaves the integrator stepping the old arrays while the accelerations are computed on the new ones
    from verif_static import norm as N
    upa = M.find_func(ae, 'update_particle_arrays')
    par = [a for a in M.arg_names(upa) if a != 'self']
    defs = N.local_defs(upa.body)
    loops = [l for l in ast.walk(upa) if isinstance(l, ast.For) and par and compact(l.iter) == par[0] and isinstance(l.target, ast.Name)]
    okw = False
    if len(loops) == 1:
        lv = loops[0].target.id
        ldefs = N.local_defs(loops[0].body)
        calls = [c for c in M.calls(loops[0]) if isinstance(c.func, ast.Attribute) and c.func.attr == 'set_array']
        okw = len(calls) == 1 and [compact(a) for a in calls[0].args] == [lv] and \
            compact(N.inline(calls[0].func.value, ldefs)) in ('getattr(self,%s.name)' % lv,)
    rebinding = [c for c in M.calls(upa) if M.call_name(c) == 'setattr'] + \
        [a for a in ast.walk(upa) if isinstance(a, ast.Assign) and any(isinstance(t_, ast.Attribute) and compact(t_.value) == 'self' for t_ in a.targets)]
    chk.decide(okw and not rebinding, 'dispatch', 'new-arrays-go-into-the-existing-wrappers', node=upa, file=TPL, func='AccelerationEval.update_particle_arrays',
               detail_bad='update_particle_arrays does not hand every new array to the existing wrapper (getattr(self, pa.name).set_array(pa))%s: the compiled integrator holds '
                          'references to the wrapper objects themselves, so after a replacement it keeps stepping the old arrays' % ('; it rebinds attributes of the evaluator' if rebinding else ''),
               detail_ok='getattr(self, pa.name).set_array(pa) for every array')


def main(chk):
    chk.explanation = ('The evaluator template is lowered to the shape of the Cython it emits and parsed with Cython\'s parser. do_group: '
                       'documented phase order by dominance, loop nesting of every phase, has_* guards, per-destination / per-source '
                       'extents, destination loops use the group range. compute(): all combinations of the template\'s own branch '
                       'predicates are enumerated (exhaustive) and the emitted nesting checked: condition wraps the whole group, '
                       'iteration wraps a pass and ends with the check, parent pre/sub-groups/update/post order. Helpers: range cases, '
                       'iteration guard parsed from the emitted string, non-short-circuit convergence, dispatch map, order-preserving regrouping.')
    tpl = MT.parse_template(TPL)
    rule_do_group(chk, tpl)
    rule_top(chk, tpl)
    rule_helpers(chk)
    rule_wrapper(chk, tpl)
    chk.assume('Cython/OpenMP execute the emitted module as written; behaviour of user callables is not analysed')


if __name__ == '__main__':
    run_check('C03', main)
