CHECKS = {
 "C20": {"text": "Decides, for every path through the set-up code, that the names for which array-pointer set-up is generated (signature arrays and arrays of precomputed symbols, destination and every source; stepper arrays) are a subset of the names validated before compilation, that unknown array names raise before any look-up, that the error names equation and missing set, and that validation dominates compilation. Exhaustive over the emit sites of the Cython back end; it does not execute anything.",
         "note": "Trusts CPython ast/Mako lexer; getfullargspec returns the written parameter names; GPU back ends out of scope.",
         "technique": "tag dataflow (SIG/PRE x S/D) with inlining + CFG dominance over helper code and Mako template"},
}
NOT_APPLICABLE = {}
