#!/bin/bash
# eval4.sh ID : evaluate round-4 deliverables of ID: breaking 1,2 -> seeds ID-10, ID-11; refactors r1,r2 -> silent variants
id=$1
for k in 1 2; do
  n=$((k+9))
  if [ -f /tmp/wt_${id}_out4/$k/patch.diff ]; then
    /venv/bin/python /verif/tools/seed_eval.py /tmp/wt_${id}_out4/$k --keep ${id}-$n > /tmp/se4_${id}_$k.json 2>&1
  fi
done
for k in 1 2; do
  d=/tmp/wt_${id}_out4/r$k
  [ -f $d/patch.diff ] || continue
  T=$(mktemp -d /tmp/rf_XXXX)
  git -C /repo worktree add -q --detach $T/wt HEAD
  ( cd $T/wt && git apply $d/patch.diff ) > $T/apply.log 2>&1; arc=$?
  tests=$(cd $T/wt && timeout 900 /venv/bin/python -m pytest -q -p no:cacheprovider --timeout=900 --continue-on-collection-errors 2>&1 | tail -1)
  out=$(cd /verif && VERIF_REPO=$T/wt VERIF_EVIDENCE_DIR=$T/ev timeout 900 ./check $id --tier quick 2>&1); rc=$?
  echo "$out" > /tmp/rf4_${id}_r$k.log
  echo "REFACTOR ${id}-r$k apply=$arc tests=[$tests] check_rc=$rc"
  echo "$out" | grep -B1 "^VIOLATION\|^ANALYSIS" | grep -v "^VIOLATION\|^--" | cut -c1-300 | head -4
  git -C /repo worktree remove --force $T/wt; rm -rf $T
done
/venv/bin/python - <<PY
import json
for k in (1,2):
    try:
        r=json.load(open('/tmp/se4_${id}_%d.json'%k))
        print('SEED ${id}',k,'confirmed',r['confirmed'],'detected',r['detected'],'|',(r.get('summary') or '')[:110],'|',[x[:160] for x in r.get('check_quick_violations',[])[:1]])
    except Exception as e:
        print('SEED ${id}',k,'ERR',e)
PY
