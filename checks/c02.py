"""C02 - compiled equations compute what the Python source says (static rules on PySPH's glue, DESIGN.md C02)."""
import ast
import os
import re
import sys
import textwrap

sys.path.insert(0, os.path.dirname(os.path.dirname(os.path.abspath(__file__))))
from verif_static.core import run_check, AnalysisError, REPO  # noqa
from verif_static import emit as EM, absint as A  # noqa
from verif_static import model as M, tags as T, makotree as MT, cy2ast, eqindex as E  # noqa
from verif_static.poly import from_ast  # noqa

EQ = 'pysph/sph/equation.py'
AH = 'pysph/sph/acceleration_eval_cython_helper.py'
KER = 'pysph/base/kernels.py'
TPL = 'pysph/sph/acceleration_eval_cython.mako'
DOCS = ('docs/source/design/equations.rst', 'docs/source/design/overview.rst')
LIBM = {'sqrt', 'abs', 'fabs', 'pow', 'exp', 'log', 'sin', 'cos', 'tan', 'atan2', 'floor', 'ceil', 'max', 'min'}
ALLOWED_HOOK_ARGS = {'d_idx', 's_idx', 't', 'dt', 'SPH_KERNEL', 'NBRS', 'N_NBRS', 'dst', 'src', 'self'}


def U(n):
    return M.unparse(n)


def compact(n):
    return U(n).replace(' ', '')


def norm_code(src):
    """AST-normalised statements of a code fragment; polynomial right-hand sides compared modulo AC"""
    t = ast.parse(textwrap.dedent(src).strip())
    out = []
    for s in t.body:
        if isinstance(s, ast.Assign):
            p = from_ast(s.value)
            rhs = str(p) if p is not None and not any(isinstance(x, (ast.Subscript, ast.Call)) for x in ast.walk(s.value)) else None
            if rhs is None:
                rhs = canon_expr(s.value)
            out.append('%s = %s' % (compact(s.targets[0]), rhs))
        else:
            out.append(canon_expr(s.value if isinstance(s, ast.Expr) else s))
    return out


def canon_expr(e):
    """canonical string: commutative + and * operands sorted"""
    if isinstance(e, ast.BinOp) and isinstance(e.op, (ast.Add, ast.Mult)):
        ops = []

        def flat(x):
            if isinstance(x, ast.BinOp) and type(x.op) is type(e.op):
                flat(x.left)
                flat(x.right)
            else:
                ops.append(canon_expr(x))
        flat(e)
        sym = '+' if isinstance(e.op, ast.Add) else '*'
        return '(' + sym.join(sorted(ops)) + ')'
    if isinstance(e, ast.BinOp):
        sym = {ast.Sub: '-', ast.Div: '/', ast.Pow: '**', ast.Mod: '%'}.get(type(e.op), '?')
        return '(%s%s%s)' % (canon_expr(e.left), sym, canon_expr(e.right))
    if isinstance(e, ast.Call):
        return '%s(%s)' % (canon_expr(e.func), ','.join(canon_expr(a) for a in e.args))
    if isinstance(e, ast.Subscript):
        return '%s[%s]' % (canon_expr(e.value), canon_expr(e.slice))
    if isinstance(e, ast.Constant) and isinstance(e.value, (int, float)):
        return repr(float(e.value))
    if isinstance(e, ast.UnaryOp) and isinstance(e.op, ast.USub):
        return '-' + canon_expr(e.operand)
    return compact(e)


def table_from_code(chk):
    eq = M.py(EQ)
    fn = M.find_func(eq, 'precomputed_symbols')
    # the table is what precomputed_symbols() builds (interpreted): however the code strings are put together
    tab = EM.precomputed_table(EQ)
    return fn, tab


def documented():
    """{symbol: (code text, file, line)} from the ``SYM = expr`` / ``SYM``: ``call`` literals of the design docs"""
    out = {}
    for rel in DOCS:
        try:
            txt = M.read(rel)
        except AnalysisError:
            continue
        lines = txt.splitlines()
        for i, l in enumerate(lines):
            for m in re.finditer(r'``([^`]+)``', l):
                lit = m.group(1).strip()
                mm = re.match(r'^([A-Z][A-Z0-9]*)(\[\d\])?\s*=\s*(.+)$', lit)
                if mm:
                    out.setdefault((rel, mm.group(1)), []).append((lit, i + 1))
            mm = re.match(r'^\s*-\s*``([A-Z][A-Z0-9]*)``:\s*``([^`]+)``', l)
            if mm:
                out.setdefault((rel, mm.group(1)), []).append((mm.group(2).strip(), i + 1))
    return out


def rule_table(chk):
    fn, tab = table_from_code(chk)
    chk.floor('precomputed symbols', len(tab), 21)
    keys = set(tab)
    # 1. documented formulas
    docs = documented()
    ndoc = 0
    for (rel, sym), lits in sorted(docs.items()):
        if sym not in tab:
            if sym in ('SPH_KERNEL',):
                continue
            chk.violated('precomputed-equals-documented', '%s:%s' % (os.path.basename(rel), sym), file=rel, line=lits[0][1], func='docs',
                         detail='documented symbol %s has no code block in precomputed_symbols()' % sym)
            continue
        doc_code = '\n'.join(l for l, _ in lits)
        try:
            want = norm_code(doc_code)
            got = norm_code(tab[sym][0])
        except SyntaxError as e:
            chk.undecided('precomputed-equals-documented', '%s:%s' % (os.path.basename(rel), sym), file=rel, line=lits[0][1], func='docs', detail=str(e))
            continue
        ndoc += 1
        chk.decide(want == got, 'precomputed-equals-documented', '%s:%s' % (os.path.basename(rel), sym), node=tab[sym][2], file=EQ,
                   func='precomputed_symbols', detail_bad='code computes %s but %s:%d documents %s' % (got, rel, lits[0][1], want), detail_ok='; '.join(got))
    chk.floor('documented formulas compared', ndoc, 16)
    # family rules for the symbols the docs do not spell out (named in the property statement)
    H = {'I': 'd_h[d_idx]', 'J': 's_h[s_idx]', 'IJ': 'HIJ'}
    fam = {}
    for suf, h in H.items():
        fam['WDASH' + suf] = ['WDASH%s = DWDQ(RIJ,%s)' % (suf, h)]
        fam['GH' + suf] = ['GH%s = GRADH(XIJ,RIJ,%s)' % (suf, h)]
    fam['WDP'] = ['WDP = KERNEL(XIJ,(DELTAP*HIJ),HIJ)']
    for sym, want in sorted(fam.items()):
        if sym not in tab:
            chk.violated('precomputed-family', sym, node=fn, file=EQ, func='precomputed_symbols', detail='symbol %s vanished' % sym)
            continue
        got = [g.replace('= ', '= ') for g in norm_code(tab[sym][0])]
        chk.decide(got == want, 'precomputed-family', sym, node=tab[sym][2], file=EQ, func='precomputed_symbols',
                   detail_bad='%s computes %s, expected %s (I = destination h, J = source h, IJ = mean h)' % (sym, got, want), detail_ok=got[0])
    # 2. well-formedness
    placeholders = set()
    deps = {}
    for sym, (code, ctx, node) in sorted(tab.items()):
        t = ast.parse(textwrap.dedent(code).strip())
        assigned = set()
        used = set()
        for s in t.body:
            if isinstance(s, ast.Assign):
                tg = s.targets[0]
                assigned.add(tg.id if isinstance(tg, ast.Name) else U(tg.value))
            elif isinstance(s, ast.Expr) and isinstance(s.value, ast.Call) and s.value.args:
                assigned.add(U(s.value.args[-1]))     # output argument of GRADIENT
        for x in ast.walk(t):
            if isinstance(x, ast.Name):
                used.add(x.id)
        chk.decide(assigned == {sym}, 'table-well-formed', 'assigns-own-key:' + sym, node=node, file=EQ, func='precomputed_symbols',
                   detail_bad='block %s assigns %s' % (sym, sorted(assigned)), detail_ok='assigns only ' + sym)
        # context default shape
        dflt = ctx.get(sym)
        is_vec = any(isinstance(s, ast.Assign) and isinstance(s.targets[0], ast.Subscript) for s in t.body) or \
            any(isinstance(s, ast.Expr) for s in t.body)
        ok = dflt is not None and ((isinstance(dflt, ast.List) and len(dflt.elts) == 3) if is_vec else isinstance(dflt, ast.Constant))
        chk.decide(ok, 'table-well-formed', 'context-shape:' + sym, node=node, file=EQ, func='precomputed_symbols',
                   detail_bad='context default of %s is %s but the block treats it as a %s' % (sym, U(dflt) if dflt is not None else None,
                                                                                          '3-vector' if is_vec else 'scalar'),
                   detail_ok='vector[3]' if is_vec else 'scalar')
        other = used - {sym}
        deps[sym] = set(o for o in other if o in keys)
        ph = set(o for o in other if o.isupper() and o not in keys)
        placeholders |= ph
        unknown = set(o for o in other if o not in keys and o not in ph and o not in LIBM and o not in ('d_idx', 's_idx')
                      and not o.startswith(('d_', 's_')))
        chk.decide(not unknown, 'table-well-formed', 'symbols-known:' + sym, node=node, file=EQ, func='precomputed_symbols',
                   detail_bad='block %s reads %s which is neither a table symbol, a placeholder, an array nor a math function' % (sym, sorted(unknown)),
                   detail_ok='reads %s' % sorted(other))
        for x in ast.walk(t):
            if isinstance(x, ast.Subscript) and isinstance(x.value, ast.Name) and x.value.id.startswith(('d_', 's_')):
                want_i = 'd_idx' if x.value.id.startswith('d_') else 's_idx'
                chk.decide(compact(x.slice) == want_i, 'table-well-formed', 'index:%s:%s' % (sym, x.value.id), node=node, file=EQ,
                           func='precomputed_symbols', detail_bad='%s indexed with %s' % (x.value.id, U(x.slice)), detail_ok=want_i)
    # acyclic
    color = {}

    def dfs(u, path):
        color[u] = 1
        for v in sorted(deps.get(u, ())):
            if color.get(v) == 1:
                return path + [u, v]
            if v not in color:
                r = dfs(v, path + [u])
                if r:
                    return r
        color[u] = 2
        return None
    cyc = None
    for k in sorted(deps):
        if k not in color:
            cyc = cyc or dfs(k, [])
    chk.decide(cyc is None, 'table-well-formed', 'dependencies-acyclic', node=fn, file=EQ, func='precomputed_symbols',
               detail_bad='dependency cycle %s: sort_precomputed never terminates' % cyc, detail_ok='%d symbols, DAG' % len(deps))
    return tab, placeholders


def rule_placeholders(chk, tab, placeholders):
    eq = M.py(EQ)
    sk = M.find_method(eq, 'CythonGroup', '_set_kernel')
    # what _set_kernel does to each placeholder: the method is interpreted (E8) on one-word inputs - every placeholder the table uses, the documented ones, and every
    # upper-case word among the method's own string constants - and on all of them in one string (a replacement must not depend on the others)
    repl = {}
    import re as _re
    cands = set(placeholders) | set(['KERNEL', 'GRADIENT', 'GRADH', 'DWDQ', 'DELTAP']) | set(w for c_ in M.str_consts(sk) for w in _re.findall(r'\b[A-Z][A-Z_0-9]+\b', c_))
    try:
        it_ = EM.interpreter()
        grp_ = EM.instance(it_, EQ, 'CythonGroup')
        for w in sorted(cands):
            out_ = EM.call(it_, grp_, '_set_kernel', '<%s>' % w, EM.mock(name='kernel', get_deltap=lambda i, a, k, n, e: 0.6875))
            if not isinstance(out_, str):
                raise A.Unsupported("result %r" % (out_,))
            if out_ != '<%s>' % w:
                repl[w] = out_[1:-1] if out_.startswith('<') and out_.endswith('>') else out_
        allw = sorted(repl)
        joined = EM.call(it_, grp_, '_set_kernel', ' '.join('<%s>' % w for w in allw), EM.mock(name='kernel', get_deltap=lambda i, a, k, n, e: 0.6875))
        if joined != ' '.join('<%s>' % repl[w] for w in allw):
            repl = dict((w, None) for w in allw)          # order-dependent substitution: no target can be trusted
        none_ = EM.call(it_, grp_, '_set_kernel', '<KERNEL>', None)
        chk.decide(none_ == '<KERNEL>', 'placeholder-substitution', 'untouched-without-kernel', node=sk, file=EQ, func='CythonGroup._set_kernel',
                   detail_bad='with kernel=None the code comes back as %r' % (none_,), detail_ok='returned as is')
    except (A.Unsupported, A.Raised) as e_:
        chk.undecided('placeholder-substitution', 'same-set', node=sk, file=EQ, func='CythonGroup._set_kernel', detail='_set_kernel not interpretable: %s' % e_)
        return
    chk.decide(set(repl) == placeholders, 'placeholder-substitution', 'same-set', node=sk, file=EQ, func='CythonGroup._set_kernel',
               detail_bad='placeholders used by the table %s vs substituted %s' % (sorted(placeholders), sorted(repl)), detail_ok=str(sorted(repl)))
    names = set(tab) | set(x.id for code, _, _ in tab.values() for x in ast.walk(ast.parse(textwrap.dedent(code).strip())) if isinstance(x, ast.Name))
    for p in sorted(repl):
        clash = [n for n in names | set(repl) if n != p and p in n]
        chk.decide(not clash, 'placeholder-substitution', 'no-substring-hazard:' + p, node=sk, file=EQ, func='CythonGroup._set_kernel',
                   detail_bad='str.replace(%r) also rewrites %s' % (p, clash), detail_ok='no other name contains ' + p)
    # target methods exist on all kernels with the arity used by the table
    arity = {}
    for code, _, _ in tab.values():
        for c in M.calls(ast.parse(textwrap.dedent(code).strip())):
            if isinstance(c.func, ast.Name) and c.func.id in repl:
                arity.setdefault(c.func.id, set()).add(len(c.args))
    ker = M.py(KER)
    kclasses = [c for c in M.classes(ker) if 'kernel' in M.methods(c)]
    chk.floor('kernel classes', len(kclasses), 10)
    want_target = {'KERNEL': 'self.kernel.kernel', 'GRADIENT': 'self.kernel.gradient', 'GRADH': 'self.kernel.gradient_h',
                   'DWDQ': 'self.kernel.dwdq', 'DELTAP': 'self.kernel.get_deltap()'}
    for p, tgt in sorted(repl.items()):
        chk.decide(tgt == want_target.get(p), 'placeholder-substitution', 'target:' + p, node=sk, file=EQ, func='CythonGroup._set_kernel',
                   detail_bad='%s is replaced by %s (expected %s)' % (p, tgt, want_target.get(p)), detail_ok=str(tgt))
        if not tgt:
            continue
        meth = tgt.replace('()', '').split('.')[-1]
        for kc in kclasses:
            f = M.methods(kc).get(meth)
            if f is None:
                chk.violated('placeholder-substitution', 'kernel-method:%s.%s' % (kc.name, meth), node=kc, file=KER, func=kc.name,
                             detail='kernel class %s lacks %s() which the precomputed code calls' % (kc.name, meth))
                continue
            n = len(M.arg_names(f)) - 1
            want_n = arity.get(p, {0})
            chk.decide(want_n == {n} or (p == 'DELTAP' and n == 0), 'placeholder-substitution', 'kernel-method:%s.%s' % (kc.name, meth), node=f,
                       file=KER, func='%s.%s' % (kc.name, meth),
                       detail_bad='%s.%s takes %d arguments, the table calls %s with %s' % (kc.name, meth, n, p, sorted(want_n)), detail_ok='%d args' % n)


def rule_wiring(chk):
    """pointer set-up: source names against src., destination names against dst."""
    ah = M.py(AH)
    cls = M.find_class(ah, 'AccelerationEvalCythonHelper')
    # what the generators emit for model groups: source names against src., destination names (of the equations with and without
    # sources) against dst., each bound to the array of the same name without its prefix
    it0 = EM.interpreter()
    helper0 = EM.instance(it0, AH, 'AccelerationEvalCythonHelper')

    def names(src_names, dst_names):
        return lambda interp, args, kwargs, node, env: (set(src_names), set(dst_names))
    for fname, obj in (('get_src_array_setup', 'src'), ('get_dest_array_setup', 'dst')):
        fn = M.find_func(cls, fname)
        try:
            if obj == 'src':
                text = EM.call(it0, helper0, fname, 'solid', EM.mock(get_array_names=names(['s_x', 's_rho', 's_d_mix'], ['d_au', 'd_x'])))
                want = {'s_x': 'src.x.data', 's_rho': 'src.rho.data', 's_d_mix': 'src.d_mix.data'}
            else:
                text = EM.call(it0, helper0, fname, 'fluid', EM.mock(get_array_names=names(['s_q'], ['d_x', 'd_au'])),
                               {'solid': EM.mock(get_array_names=names(['s_x', 's_m'], ['d_rho', 'd_x'])), 'fluid': EM.mock(get_array_names=names(['s_h'], ['d_s_mix']))},
                               EM.mock(start_idx=0, stop_idx=None, real=True))
                want = {'d_x': 'dst.x.data', 'd_au': 'dst.au.data', 'd_rho': 'dst.rho.data', 'd_s_mix': 'dst.s_mix.data'}
            got = {}
            for st in ast.parse(textwrap.dedent(text)).body:
                if isinstance(st, ast.Assign) and len(st.targets) == 1 and isinstance(st.targets[0], ast.Name) and st.targets[0].id[:2] in ('s_', 'd_'):
                    got[st.targets[0].id] = compact(st.value)
            chk.decide(got == want, 'pointer-wiring', fname + ':format', node=fn, file=AH, func=fname,
                       detail_bad='for model groups the generator binds %s; expected %s ("<name> = %s.<name without prefix>.data" for exactly the %s arrays of the group)'
                                  % (got, want, obj, 'source' if obj == 'src' else 'destination'), detail_ok='<name> = %s.<name without prefix>.data' % obj)
            other = 's_' if obj == 'dst' else 'd_'
            chk.decide(not [k for k in got if k.startswith(other)] and set(got) >= set(want), 'pointer-wiring', fname + ':names', node=fn, file=AH, func=fname,
                       detail_bad='the names bound against %s. are %s' % (obj, sorted(got)), detail_ok='%s-side names only (%s)' % ('source' if obj == 'src' else 'destination', sorted(got)))
        except (A.Unsupported, A.Raised, SyntaxError) as e:
            chk.undecided('pointer-wiring', fname, node=fn, file=AH, func=fname, detail='generator not interpretable on the model group: %s' % e)
    # template binds src / dst to the arrays named by the loop variables
    tpl = MT.parse_template(TPL)
    lines = MT.skeleton(tpl.fn('do_group'))
    bind = {}
    for l in lines:
        m = re.match(r'^(src|dst) = self\.\x000\x00$', l.text)
        if m:
            bind[m.group(1)] = U(l.exprs[0])
    chk.decide(bind == {'dst': 'dest', 'src': 'source'}, 'pointer-wiring', 'template-binding', file=TPL, func='do_group', line=0,
               detail_bad='template binds %s' % bind, detail_ok='dst = self.<dest>; src = self.<source>')
    # the d_* / s_* pointers are (re)bound before every equation hook that can read them, under no condition the hook itself is not under
    import importlib.util
    spec3 = importlib.util.spec_from_file_location('c03mod', os.path.join(os.path.dirname(os.path.abspath(__file__)), 'c03.py'))
    c03 = importlib.util.module_from_spec(spec3)
    spec3.loader.exec_module(c03)
    lines3, table3, mod3 = c03.shape(tpl, 'do_group')
    where = {}
    for st in ast.walk(mod3):
        if not isinstance(st, (ast.Expr, ast.For, ast.With)):
            continue
        tgt = st.value if isinstance(st, ast.Expr) else st.iter if isinstance(st, ast.For) else st.items[0].context_expr
        ph = c03.phase_of(table3, tgt)
        if ph is not None:
            where.setdefault(ph[0], []).append(st)

    def guards(st):
        out = []
        p_ = getattr(st, 'parent', None)
        while p_ is not None:
            if isinstance(p_, ast.If):
                out.append(compact(p_.test))
            p_ = getattr(p_, 'parent', None)
        return set(out)
    for setup, users in (('src_setup', ('initialize_pair', 'loop_all', 'loop')),
                         ('dest_setup', ('initialize', 'loop_no_source', 'initialize_pair', 'loop_all', 'loop', 'post_loop'))):
        ss = where.get(setup, [])
        for u_ in users:
            us = where.get(u_, [])
            if len(ss) != 1 or not us:
                chk.undecided('pointer-wiring', '%s-before-%s' % (setup, u_), file=TPL, func='do_group', line=0, detail='phase not found exactly once in the emitted shape of do_group')
                continue
            okp = all((ss[0].lineno, ss[0].col_offset) < (x.lineno, x.col_offset) for x in us) and all(guards(ss[0]) <= guards(x) for x in us)
            chk.decide(okp, 'pointer-wiring', '%s-before-%s' % (setup, u_), node=ss[0], file=TPL, func='do_group',
                       detail_bad='the %s pointers are bound after `%s` is emitted, or only under %s which `%s` is not under: the hook then runs with the pointers of the array '
                                  'processed before (or none at all)' % ('s_*' if setup == 'src_setup' else 'd_*', u_, sorted(guards(ss[0]) - set.intersection(*[guards(x) for x in us])), u_),
                       detail_ok='bound first, under no extra condition')
    c03.rule_iteration(chk)
    # the loops around the hooks and the order in which the equations of a destination are called are part of what the compiled code computes (rules shared with C03)
    c03.rule_do_group(chk, tpl)
    c03.rule_regroup(chk)
    c03.rule_dispatch(chk)
    c03.rule_bounds(chk)
    # groups, sub-groups, their conditions and iteration loops nest in the generated compute() as the group tree says (rule shared with C03)
    c03.rule_top(chk, tpl)
    # NP_DEST / NP_SRC of the generated loops are what the array says now: the wrapper's size() asks the array on every call (rule shared with C03 / C04)
    c03.rule_wrapper(chk, tpl)
    rule_reduce_binding(chk, c03, tpl)
    rule_attribute_types(chk)
    # the d_* / s_* pointers are declared with the element type of their property (model run shared with C12)
    spec12 = importlib.util.spec_from_file_location('c12mod', os.path.join(os.path.dirname(os.path.abspath(__file__)), 'c12.py'))
    c12 = importlib.util.module_from_spec(spec12)
    spec12.loader.exec_module(c12)
    c12.rule_typed_array_declarations(chk)
    # the wrapper that `src.X` / `dst.X` resolve through must (re)bind every property AND every constant whenever an array is set
    pick = c03.simplest
    lines2 = MT.skeleton(tpl.fn('__template__'), choose=pick)
    src2, table2 = MT.skeleton_source(lines2)
    try:
        mod2 = cy2ast.cy_string_to_ast(REPO, src2, TPL)
    except cy2ast.FrontEndError as e:
        raise AnalysisError('template shape not parseable: %s' % e)
    w = M.find_class(mod2, 'ParticleArrayWrapper')
    sa = M.find_func(w, 'set_array')
    aev = M.find_class(mod2, 'AccelerationEval')
    upa = M.find_func(aev, 'update_particle_arrays')
    # decided on a model: the wrapper / evaluator classes of the template are interpreted on two model particle arrays whose
    # get_carray returns a token naming (array, property); afterwards every property and constant of the *new* array must be bound
    PA_MODEL = """
class PA:
    def __init__(self, name, props, consts):
        self.name = name
        self.properties = props
        self.constants = consts
    def get_carray(self, n):
        return ('carray', self.name, self.gen, n)
    def get_number_of_particles(self, real=False):
        return 0
"""
    try:
        it = EM.interpreter()
        EM.model_module(it, '<tpl>', mod2)
        EM.model_module(it, '<pa>', PA_MODEL)

        def pa(name, gen, props, consts):
            return EM.instance(it, '<pa>', 'PA', name=name, gen=gen, properties=dict((k, None) for k in props), constants=dict((k, None) for k in consts))
        w1 = EM.instance(it, '<tpl>', 'ParticleArrayWrapper')
        EM.call(it, w1, '__init__', pa('fluid', 0, ['x', 'rho'], ['c0']), 0)
        first = dict(w1.attrs)
        EM.call(it, w1, 'set_array', pa('fluid', 1, ['x', 'rho', 'p'], ['c0', 'k']))
        second = dict(w1.attrs)
        init_ok = all(first.get(n) == ('carray', 'fluid', 0, n) for n in ('x', 'rho', 'tag', 'pid', 'gid', 'c0'))
        props_ok = all(second.get(n) == ('carray', 'fluid', 1, n) for n in ('x', 'rho', 'p', 'tag', 'pid', 'gid'))
        const_ok = all(second.get(n) == ('carray', 'fluid', 1, n) for n in ('c0', 'k'))
        arr_ok = isinstance(second.get('array'), A.Obj) and second['array'].attrs.get('gen') == 1
        # the evaluator: every array handed to update_particle_arrays reaches its own wrapper
        wf = EM.instance(it, '<tpl>', 'ParticleArrayWrapper')
        ws = EM.instance(it, '<tpl>', 'ParticleArrayWrapper')
        ev_ = EM.instance(it, '<tpl>', 'AccelerationEval', fluid=wf, solid=ws)
        EM.call(it, ev_, 'update_particle_arrays', [pa('fluid', 2, ['x'], ['c0']), pa('solid', 2, ['x', 'm'], [])])
        upd_ok = wf.attrs.get('x') == ('carray', 'fluid', 2, 'x') and wf.attrs.get('c0') == ('carray', 'fluid', 2, 'c0') \
            and ws.attrs.get('m') == ('carray', 'solid', 2, 'm') and ws.attrs.get('x') == ('carray', 'solid', 2, 'x')
        shown = dict((k, v) for k, v in second.items() if isinstance(v, tuple))
    except (A.Unsupported, A.Raised) as e:
        chk.undecided('pointer-wiring', 'wrapper-model', node=sa, file=TPL, func='ParticleArrayWrapper.set_array', detail='cannot interpret the wrapper on the model arrays: %s' % e)
        init_ok = props_ok = const_ok = arr_ok = upd_ok = None
    if props_ok is not None:
        chk.decide(props_ok and arr_ok, 'pointer-wiring', 'wrapper-rebinds-properties', node=sa, file=TPL, func='ParticleArrayWrapper.set_array',
                   detail_bad='after set_array(new array) the wrapper holds %s: not every property carray (and tag/pid/gid) of the new array is bound' % shown,
                   detail_ok='model run: every property + tag/pid/gid bound to pa.get_carray(<same name>) of the new array')
        chk.decide(const_ok, 'pointer-wiring', 'wrapper-rebinds-constants', node=sa, file=TPL, func='ParticleArrayWrapper.set_array',
                   detail_bad='set_array does not re-bind the constants (%s): after update_particle_arrays the d_/s_ pointers of constants still refer to the '
                              'previous particle array' % shown, detail_ok='constants re-bound as well')
        chk.decide(init_ok, 'pointer-wiring', 'wrapper-init-uses-set_array', node=M.find_func(w, '__init__'), file=TPL,
                   func='ParticleArrayWrapper.__init__', detail_bad='a freshly constructed wrapper does not hold every property/constant carray of its array',
                   detail_ok='construction binds the same set as set_array')
        chk.decide(upd_ok, 'pointer-wiring', 'update-rebinds-every-array', node=upa, file=TPL, func='AccelerationEval.update_particle_arrays',
                   detail_bad='update_particle_arrays does not re-bind every array handed to it to the wrapper of the same name', detail_ok='model run with two arrays: each re-bound to its own wrapper')
    # time and step reach the equations in double precision: the Python methods compute with Python floats (doubles), so no parameter or local of the
    # generated evaluator may be single precision, and t / dt of compute() are doubles
    singles = []
    nfun = 0
    for f_ in [x for x in ast.walk(mod2) if isinstance(x, ast.FunctionDef)]:
        nfun += 1
        for an, ty in (getattr(f_, 'cy_argtypes', None) or {}).items():
            if str(ty).strip() == 'float':
                singles.append('%s(%s %s)' % (f_.name, ty, an))
        for a_ in ast.walk(f_):
            if isinstance(a_, ast.AnnAssign) and isinstance(a_.annotation, ast.Constant) and str(a_.annotation.value).strip() == 'float':
                singles.append('%s: cdef float %s' % (f_.name, U(a_.target)))
    cmp_ = M.find_func(aev, 'compute')
    tt = getattr(cmp_, 'cy_argtypes', None) or {}
    chk.decide(not singles and tt.get('t') == 'double' and tt.get('dt') == 'double', 'hook-parameters', 'double-precision-time', node=cmp_, file=TPL, func='AccelerationEval.compute',
               detail_bad='single-precision declarations in the generated evaluator: %s; compute(t, dt) typed %s - equations and group conditions then see t / dt rounded to float32'
                          % (singles, tt), detail_ok='compute(double t, double dt); no float declarations in %d functions' % nfun)
    # known types for both prefixes
    kt = M.find_func(ah, 'get_known_types_for_arrays')
    try:
        it = EM.interpreter()
        res = EM.call_function(it, AH, 'get_known_types_for_arrays', {'DoubleArray': ['x', 'h'], 'UIntArray': ['gid']})
        ok = isinstance(res, dict) and sorted(res) == ['d_gid', 'd_h', 'd_x', 's_gid', 's_h', 's_x'] and all(res['s_' + n] is res['d_' + n] for n in ('x', 'h', 'gid'))
        keys = dict((k, A.key_of(v)) for k, v in res.items()) if isinstance(res, dict) else res
        ok = ok and all('get_c_type' in A.key_of(res[k]) and '*' in A.key_of(res[k]) for k in res) and \
            'DoubleArray' in keys['d_x'] and 'UIntArray' in keys['d_gid'] and 'UIntArray' not in keys['d_x']
        chk.decide(ok, 'pointer-wiring', 'known-types', node=kt, file=AH, func='get_known_types_for_arrays',
                   detail_bad='for {DoubleArray: [x, h], UIntArray: [gid]} the declared types are %s: both the s_ and the d_ name of an array must be a pointer to the element type of its own carray class' % keys,
                   detail_ok='s_/d_ pointers of the carray element type')
    except (A.Unsupported, A.Raised) as e:
        chk.undecided('pointer-wiring', 'known-types', node=kt, file=AH, func='get_known_types_for_arrays', detail='not interpretable: %s' % e)

def model_group(it):
    """a CythonGroup with two model equations, one vector / one float / one int in its context and one precomputed symbol"""
    e0 = EM.mock(var_name='eq0', name='EqA', loop=EM.func("def loop(self, d_idx, s_idx, d_x, SPH_KERNEL, WIJ): pass"),
                initialize=EM.func("def initialize(self, d_idx, d_x): pass"))
    e1 = EM.mock(var_name='eq1', name='EqB', loop=EM.func("def loop(self, d_idx, d_au, XIJ): pass"), reduce=EM.func("def reduce(self, dst, t, dt): pass"),
                post_loop=EM.func("def post_loop(self, d_idx, d_au): pass"))
    return EM.instance(it, EQ, 'CythonGroup', equations=[e0, e1], context={'XIJ': [0.0, 0.0, 0.0], 'VIJ': [0.0, 0.0, 0.0], 'HIJ': 0.0, 'n': 1},
                      precomputed={'HIJ': EM.mock(code='HIJ = 0.5*(d_h[d_idx] + s_h[s_idx])\n')})


def rule_scratch(chk):
    """per-thread scratch vectors: what is allocated and where thread t's slice starts, read off the text the generators emit for a model context"""
    eq = M.py(EQ)
    cls = M.find_class(eq, 'CythonGroup')
    setup = M.find_func(cls, 'get_variable_array_setup')
    it = EM.interpreter()
    g = model_group(it)
    try:
        decl = EM.call(it, g, 'get_variable_declarations', g.attrs['context'])
        offs = EM.call(it, g, 'get_variable_array_setup')
    except (A.Unsupported, A.Raised) as e:
        chk.undecided('scratch-vectors', 'stride-agrees', node=setup, file=EQ, func='CythonGroup.get_variable_array_setup', detail='generator not interpretable: %s' % e)
        decl = offs = None
    if decl is not None:
        for var, size in (('XIJ', 3), ('VIJ', 3)):
            ma = re.search(r'_%s\s*=\s*DoubleArray\((.*)\)\s*$' % var, decl, re.M)
            mo = re.search(r'^\s*%s\s*=\s*&_%s\.data\[(.*)\]\s*$' % (var, var), offs, re.M)
            ok = ma is not None and mo is not None
            stride = None
            if ok:
                # allocated = n_threads * stride and offset(t) = t * stride for one and the same stride >= size
                from verif_static.norm import canon
                alloc, off = ma.group(1), mo.group(1)
                ok = canon('(%s)*thread_id' % alloc) == canon('(%s)*self.n_threads' % off)
                ms = re.search(r'aligned\((\d+),\s*(\d+)\)', off)
                stride = ms.group(0) if ms else None
                ok = ok and ms is not None and int(ms.group(1)) == size and 'thread_id' not in ms.group(0)
            chk.decide(ok, 'scratch-vectors', 'stride-agrees:%s' % var, node=setup, file=EQ, func='CythonGroup.get_variable_array_setup',
                       detail_bad='for a %d-vector the generators emit `%s` and `%s`: thread t does not get the t-th slice of n_threads equal slices of at least %d doubles (slices overlap)'
                                  % (size, ma.group(0).strip() if ma else None, mo.group(0).strip() if mo else None, size),
                       detail_ok='allocated n_threads*%s, thread t starts at t*%s' % (stride, stride))
        ok = re.search(r'^cdef double HIJ = 0\.0$', decl, re.M) is not None and re.search(r'^cdef long n = 1$', decl, re.M) is not None and 'HIJ' not in offs
        chk.decide(ok, 'scratch-vectors', 'scalars-are-locals', node=setup, file=EQ, func='CythonGroup._get_variable_decl',
                   detail_bad='scalar context entries are not declared as thread-private C locals', detail_ok='cdef double / cdef long locals')
    tpl = MT.parse_template(TPL)
    lines = MT.skeleton(tpl.fn('do_group'))
    idx = dict((('setup' if any('get_variable_array_setup' in U(e) for e in l.exprs) else l.text), i) for i, l in enumerate(lines))
    ok = 'thread_id = threadid()' in idx and 'setup' in idx and idx['thread_id = threadid()'] < idx['setup']
    chk.decide(ok, 'scratch-vectors', 'offset-after-threadid', file=TPL, func='do_group', line=0,
               detail_bad='scratch pointers are set before thread_id = threadid()', detail_ok='thread_id first')


def rule_init(chk):
    eq = M.py(EQ)
    cls = M.find_class(eq, 'CythonGroup')
    gi = M.find_func(cls, 'get_equation_init')
    it = EM.interpreter()
    g = model_group(it)
    try:
        text = EM.call(it, g, 'get_equation_init')
        lines = [l.strip() for l in text.splitlines() if l.strip()]
        ok = lines == ['self.eq0 = EqA(**equations[0].__dict__)', 'self.eq1 = EqB(**equations[1].__dict__)']
        chk.decide(ok, 'equation-recreation', 'init-index', node=gi, file=EQ, func='CythonGroup.get_equation_init',
                   detail_bad='for equations [eq0:EqA, eq1:EqB] the generator emits %s: compiled equation k must be re-created from equations[k].__dict__ under its own variable name' % lines,
                   detail_ok='self.<var> = Cls(**equations[k].__dict__), k the position in the same list')
    except (A.Unsupported, A.Raised) as e:
        chk.undecided('equation-recreation', 'init-index', node=gi, file=EQ, func='CythonGroup.get_equation_init', detail='generator not interpretable: %s' % e)
    ah = M.py(AH)
    h = M.find_class(ah, 'AccelerationEvalCythonHelper')
    for nm in ('get_equation_init', 'get_equation_defs'):
        f = M.find_func(h, nm)
        chk.decide('self.object.all_group.%s()' % nm in U(f), 'equation-recreation', 'helper:' + nm, node=f, file=AH, func=nm,
                   detail_bad='%s is not taken from all_group' % nm, detail_ok='all_group.' + nm)
    scm = M.find_func(h, 'setup_compiled_module')
    c = [x for x in M.calls(scm) if M.call_name(x) == 'module.AccelerationEval']
    from verif_static import norm as N_
    ld_scm = N_.local_defs(scm.body)
    chk.decide(bool(c) and len(c[0].args) >= 2 and compact(N_.inline(c[0].args[1], ld_scm)) == 'self.object.all_group.equations', 'equation-recreation', 'same-list', node=scm,
               file=AH, func='setup_compiled_module', detail_bad='the list passed as `equations` is not all_group.equations (indices would not match)',
               detail_ok='all_group.equations')
    ki = M.find_func(h, 'get_kernel_init')
    try:
        hm = EM.instance(it, AH, 'AccelerationEvalCythonHelper', object=EM.mock(kernel=EM.mock(__class__=EM.mock(__name__='QuinticSpline'))))
        txt = EM.call(it, hm, 'get_kernel_init').strip()
        chk.decide(txt == 'self.kernel = QuinticSpline(**kernel.__dict__)', 'equation-recreation', 'kernel', node=ki, file=AH, func='get_kernel_init',
                   detail_bad='emits `%s`: the compiled kernel must be re-created from kernel.__dict__ with the class of the configured kernel' % txt, detail_ok='Kernel(**kernel.__dict__)')
    except (A.Unsupported, A.Raised) as e:
        chk.undecided('equation-recreation', 'kernel', node=ki, file=AH, func='get_kernel_init', detail='not interpretable: %s' % e)
    gc = M.find_func(cls, '_get_code')
    want = {'initialize': ['self.eq0.initialize(d_idx, d_x)'],
            'loop': ['self.eq0.loop(d_idx, s_idx, d_x, self.kernel, WIJ)', 'self.eq1.loop(d_idx, d_au, XIJ)'],
            'post_loop': ['self.eq1.post_loop(d_idx, d_au)'], 'reduce': ['self.eq1.reduce(dst.array, t, dt)'], 'loop_all': [], 'initialize_pair': []}
    try:
        bad = []
        pre_seen = {}
        for kind, calls in sorted(want.items()):
            text = EM.call(it, g, '_get_code', None, kind)
            ls = [l.strip() for l in text.splitlines() if l.strip()]
            pre_seen[kind] = [l for l in ls if not l.startswith('self.')]
            if [l for l in ls if l.startswith('self.')] != calls:
                bad.append((kind, [l for l in ls if l.startswith('self.')]))
        chk.decide(not bad, 'equation-recreation', 'call-own-arguments', node=gc, file=EQ, func='CythonGroup._get_code',
                   detail_bad='for two model equations the generator emits %s: every equation that defines the hook must be called once, in list order, as '
                              'self.<var>.<hook>(<the hook\'s own parameters, SPH_KERNEL -> self.kernel>) (reduce: dst.array, t, dt)' % bad,
                   detail_ok='own parameter list, SPH_KERNEL -> self.kernel, list order, hooks an equation lacks are skipped')
        okp = pre_seen['loop'] == ['HIJ = 0.5*(d_h[d_idx] + s_h[s_idx])'] and all(not v for k, v in pre_seen.items() if k != 'loop')
        chk.decide(okp, 'equation-recreation', 'precomputed-only-in-loop', node=gc, file=EQ, func='CythonGroup._get_code',
                   detail_bad='precomputed preamble emitted per hook: %s (must be exactly the code blocks, for `loop` only)' % pre_seen, detail_ok='preamble for loop only')
    except (A.Unsupported, A.Raised) as e:
        chk.undecided('equation-recreation', 'call-own-arguments', node=gc, file=EQ, func='CythonGroup._get_code', detail='generator not interpretable: %s' % e)



def rule_language(chk, tab):
    """precomputed symbols may only be parameters of loop(); other hook parameters must be arrays or documented names"""
    keys = set(tab)
    eqs = E.equations()
    n = 0
    bad = 0
    for rel, cls in eqs:
        for name, fn in E.hook_methods(cls, E.PAR_HOOKS):
            n += 1
            args = M.arg_names(fn)
            offenders = []
            for a in args:
                if a in ALLOWED_HOOK_ARGS or a.startswith(('d_', 's_')):
                    continue
                if a in keys:
                    if name != 'loop':
                        offenders.append('%s (precomputed symbols are only computed before loop())' % a)
                    continue
                offenders.append('%s (not an array, index, t/dt, kernel, NBRS/N_NBRS or precomputed symbol)' % a)
            if offenders:
                bad += 1
                chk.violated('hook-parameters', '%s:%s.%s' % (rel, cls.name, name), node=fn, file=rel, func='%s.%s' % (cls.name, name),
                             detail='parameter(s) %s' % '; '.join(offenders))
    chk.holds('hook-parameters', 'all-shipped-hooks', file='pysph/sph', func='*', detail='%d hook methods of %d classes, %d offenders' % (n, len(eqs), bad))
    chk.floor('equation hook methods', n, 450)
    chk.unit('equation classes', len(eqs))


def rule_division(chk):
    """Hooks are compiled with C division semantics: `a / b` with two integer operands truncates in the compiled code and is a true division in Python.  For every
    equation and stepper hook, no division has two operands that are integers in both worlds (int literals, declare('int') locals, particle indices, attributes that
    __init__ sets to an int literal or straight from an int-valued constructor parameter such as dim) - unless the quotient is exact (k*(k+1)/2)."""
    from verif_static import eqindex as EI
    ci = EI.index()

    def int_attrs(rel, cls):
        out = set()
        for r, c in ci.mro(rel, cls):
            init = M.methods(c).get('__init__')
            if init is None:
                continue
            params = [a.arg for a in init.args.args][1:]
            defaults = dict(zip(params[len(params) - len(init.args.defaults):], init.args.defaults))
            for a in ast.walk(init):
                if isinstance(a, ast.Assign) and isinstance(a.targets[0], ast.Attribute) and isinstance(a.targets[0].value, ast.Name) and a.targets[0].value.id == 'self':
                    v = a.value
                    lit = isinstance(v, ast.Constant) and isinstance(v.value, int) and not isinstance(v.value, bool)
                    par = isinstance(v, ast.Name) and v.id in params and (v.id in ('dim', 'ndim') or (
                        v.id in defaults and isinstance(defaults[v.id], ast.Constant) and isinstance(defaults[v.id].value, int) and not isinstance(defaults[v.id].value, bool)))
                    if lit or par:
                        out.add(a.targets[0].attr)
        return out
    n = nd = 0
    for rel, cls in list(EI.equations()) + list(EI.steppers()):
        ia = None
        for h, (r2, c2, fn) in EI.resolved_hooks(ci, rel, cls, EI.HOOKS + ('stage1', 'stage2', 'stage3', 'stage4')).items():
            if h in ('reduce', 'py_initialize') or c2 is not cls:
                continue
            divs = [d for d in ast.walk(fn) if isinstance(d, ast.BinOp) and isinstance(d.op, ast.Div)]
            if not divs:
                continue
            if ia is None:
                ia = int_attrs(rel, cls)
            ints = set(['d_idx', 's_idx'])
            for a in ast.walk(fn):
                if isinstance(a, ast.Assign) and isinstance(a.value, ast.Call) and M.call_name(a.value) == 'declare' and a.value.args and isinstance(a.value.args[0], ast.Constant) \
                        and str(a.value.args[0].value).startswith(('int', 'long', 'unsigned')):
                    for t in a.targets:
                        ints |= set(x.id for x in ast.walk(t) if isinstance(x, ast.Name))

            def isint(e):
                if isinstance(e, ast.Constant):
                    return isinstance(e.value, int) and not isinstance(e.value, bool)
                if isinstance(e, ast.Name):
                    return e.id in ints
                if isinstance(e, ast.Attribute) and isinstance(e.value, ast.Name) and e.value.id == 'self':
                    return e.attr in ia
                if isinstance(e, ast.BinOp) and isinstance(e.op, (ast.Add, ast.Sub, ast.Mult)):
                    return isint(e.left) and isint(e.right)
                if isinstance(e, ast.UnaryOp):
                    return isint(e.operand)
                return False

            def exact(d):
                # k*(k+1)/2: the product of consecutive integers is even
                if isinstance(d.right, ast.Constant) and d.right.value == 2 and isinstance(d.left, ast.BinOp) and isinstance(d.left.op, ast.Mult):
                    a_, b_ = d.left.left, d.left.right
                    from verif_static import norm as N
                    return N.same(b_, '%s + 1' % M.unparse(a_)) or N.same(a_, '%s + 1' % M.unparse(b_))
                return False
            for d in divs:
                nd += 1
                if isint(d.left) and isint(d.right) and not exact(d):
                    n += 1
                    chk.violated('python-and-c-division-agree', '%s.%s:%s' % (cls.name, h, compact(d)), node=d, file=r2, func='%s.%s' % (cls.name, h),
                                 detail='`%s` divides two integers: the compiled hook (cdivision) truncates where the Python method divides exactly - e.g. 1/dim is 0 for dim >= 2' % M.unparse(d))
    if not n:
        chk.holds('python-and-c-division-agree', 'all-hooks', file=EQ, func='hooks', line=0, detail='%d divisions in equation / stepper hooks: none has two integer operands (or the quotient is exact)' % nd)
    chk.floor('divisions in hooks', nd, 300)


def rule_reduce_binding(chk, c03, tpl):
    """what `parallel_reduce_array` means inside a transpiled reduce(): the identity when the run is serial (each process reduces its own particles, there is nothing to combine - an
    array constant must come back as the array it is), the MPI reduction when it is distributed.  Decided by lowering the module header of the evaluator template once per mode"""
    want = {'serial': 'dummy_reduce_array', 'mpi': 'mpi_reduce_array'}
    for mode in ('serial', 'mpi'):
        def choose(test, mode=mode):
            t, neg = c03.positive(test)
            t2 = t.replace(' ', '').replace('"', "'")
            if 'object.mode' in t2 and ('==' in t2 or '!=' in t2):
                eq = ("=='%s'" % mode) in t2 if '==' in t2 else ("!='%s'" % mode) not in t2
                known = any(("'%s'" % m_) in t2 for m_ in want)
                v = eq if known else False
                return (not v) if neg else v
            return c03.simplest(test)
        try:
            lines, table, mod = c03.shape(tpl, '__template__', choose)
        except Exception as e:          # noqa
            chk.undecided('reduce-binding', mode, file=c03.TPL, func='<module header>', line=0, detail='header not lowered: %s' % e)
            continue
        bound = None
        node_ = None
        for st in mod.body:
            if isinstance(st, ast.ImportFrom):
                for a_ in st.names:
                    if (a_.asname or a_.name) == 'parallel_reduce_array':
                        bound, node_ = a_.name, st
            elif isinstance(st, ast.Assign) and any(U(t_) == 'parallel_reduce_array' for t_ in st.targets):
                bound, node_ = U(st.value), st
        chk.decide(bound == want[mode], 'reduce-binding', mode, node=node_ or mod, file=c03.TPL, func='<module header>',
                   detail_bad='in %s mode `parallel_reduce_array` of the generated module is %s (expected %s): a transpiled reduce() that sends an array constant through it gets %s' % (
                       mode, bound, want[mode], 'one scalar broadcast into every entry' if mode == 'serial' else 'only its own process\'s share'),
                   detail_ok='parallel_reduce_array is %s' % bound)


def rule_attribute_types(chk):
    """the compiled copy of an equation types its attributes by the values the Python instance holds after __init__ (int -> long, float -> double): an attribute that a hook, reduce()
    or converged() later assigns a real number must start out as a float - set to an int literal it becomes a C long and the compiled code truncates what it stores there"""
    import glob as _glob
    n_int, bad = 0, []
    for p_ in sorted(_glob.glob(os.path.join(REPO, 'pysph/sph/**/*.py'), recursive=True)):
        if '/tests/' in p_:
            continue
        rel = os.path.relpath(p_, REPO)
        try:
            t = M.py(rel)
        except SyntaxError:
            continue
        for c in M.classes(t):
            meths = M.methods(c)
            ini = meths.get('__init__')
            if ini is None:
                continue
            ints = {}
            for a in ast.walk(ini):
                if isinstance(a, ast.Assign) and isinstance(a.value, ast.Constant) and isinstance(a.value.value, int) and not isinstance(a.value.value, bool):
                    for tg in a.targets:
                        if isinstance(tg, ast.Attribute) and isinstance(tg.value, ast.Name) and tg.value.id == 'self':
                            ints[tg.attr] = a
            n_int += len(ints)
            for mn, fn in sorted(meths.items()):
                if mn == '__init__' or not ints:
                    continue
                for a in ast.walk(fn):
                    tg = v = None
                    if isinstance(a, ast.Assign) and len(a.targets) == 1:
                        tg, v = a.targets[0], a.value
                    elif isinstance(a, ast.AugAssign):
                        tg, v = a.target, a.value
                    if tg is None or not (isinstance(tg, ast.Attribute) and isinstance(tg.value, ast.Name) and tg.value.id == 'self' and tg.attr in ints):
                        continue
                    real = any(isinstance(x, ast.BinOp) and isinstance(x.op, ast.Div) for x in ast.walk(v)) or \
                        any(isinstance(x, ast.Constant) and isinstance(x.value, float) for x in ast.walk(v)) or \
                        any(isinstance(x, ast.Subscript) and isinstance(x.value, ast.Name) and x.value.id[:2] in ('d_', 's_') for x in ast.walk(v))
                    if real:
                        bad.append((rel, c.name, mn, tg.attr, a, ints[tg.attr]))
    chk.floor('integer-initialised equation attributes', n_int, 8)
    if not bad:
        chk.holds('attribute-types', 'int-initialised-attributes-stay-integral', file='pysph/sph/equation.py', func='Equation subclasses',
                  detail='%d attributes initialised with an int literal: none is assigned a real-valued expression by another method' % n_int)
    for rel, cname, mn, attr, a, ia in bad:
        chk.violated('attribute-types', '%s.%s' % (cname, attr), node=ia, file=rel, func='%s.__init__' % cname,
                     detail='self.%s is initialised with the int literal in `%s` but %s.%s assigns it `%s`: the compiled equation declares it long and truncates the value '
                            '(convergence tests and the next pass then see 0)' % (attr, U(ia)[:50], cname, mn, U(a)[:60]))


def main(chk):
    chk.explanation = ('PySPH\'s part of the Python-to-Cython path (compyle itself is outside the repository): precomputed table compared with '
                       'the formulas of the design docs (AST/polynomial normal form), table well-formedness (own key, context shape, known '
                       'symbols, index discipline, acyclic dependencies), placeholder substitution (same set, no substring hazard, target method '
                       'and arity on all 10 kernels), S/D provenance of the pointer set-up, per-thread scratch stride agreement, equation / '
                       'kernel re-creation and call generation, and the language rule over all shipped equation hooks.')
    tab, placeholders = rule_table(chk)
    rule_placeholders(chk, tab, placeholders)
    rule_wiring(chk)
    rule_scratch(chk)
    rule_init(chk)
    rule_language(chk, tab)
    rule_division(chk)
    chk.assume('compyle transpiles method bodies faithfully (outside this repository); no numerical statement is made')


if __name__ == '__main__':
    run_check('C02', main)
