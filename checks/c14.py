"""C14 - interpolation of particle data obeys its defining formulas (static rules, DESIGN.md C14)."""
import ast
import os
import sys
from fractions import Fraction

sys.path.insert(0, os.path.dirname(os.path.dirname(os.path.abspath(__file__))))
from verif_static.core import run_check, AnalysisError  # noqa
from verif_static.norm import same, same_stmt, local_defs, inline  # noqa
from verif_static import model as M, cfg as C, norm as N  # noqa
from verif_static.poly import Poly  # noqa

INT = 'pysph/tools/interpolator.py'
SEV = 'pysph/tools/sph_evaluator.py'
NORMALISED = {'shepard': 'InterpolateFunction', 'splash_norm': 'SPLASHInterpolatePropertyNormalized'}
EQ_OF = {'shepard': 'InterpolateFunction', 'sph': 'InterpolateSPH', 'splash': 'SPLASHInterpolateProperty',
         'splash_norm': 'SPLASHInterpolatePropertyNormalized', 'order1': 'SPHFirstOrderApproximation'}


KEEP_INT = ('_create_nnps', '_create_particle_array', '_compile_acceleration_eval', '_get_max_h_in_arrays', '_set_particle_arrays', '_create_default_points')
_INT_CACHE = {}


def interp_class(tree):
    """the Interpolator class with private helpers (other than the ones the rules refer to) inlined at their call sites"""
    if id(tree) not in _INT_CACHE:
        raw = M.find_class(tree, 'Interpolator')
        _INT_CACHE[id(tree)] = M.inlined_class(raw, keep=set(KEEP_INT) | set(n_ for n_ in M.methods(raw) if not n_.startswith('_')))
    return _INT_CACHE[id(tree)]


def nnps_built_over(fn, factory, want):
    """per feasible path of `fn`: self.nnps is assigned a call of `factory` whose keywords (path-local names substituted) are `want`, and the evaluator gets that very object"""
    from verif_static import paths as PT
    seen = []
    ok = True
    for p_ in PT.enumerate_paths(M.docstring_stripped(fn.body)):
        built = None
        handed = False
        for e in p_:
            if e.kind == 'stmt' and isinstance(e.node, ast.Assign) and any(compact(t_) == 'self.nnps' for t_ in e.node.targets):
                v = PT.resolve(e.node.value, e.env)
                if isinstance(v, ast.Call) and compact(v.func) == factory:
                    built = v
        for i, c, cal, env in PT.calls_on(p_):
            if cal == 'self.func_eval.set_nnps' and c.args:
                a0 = compact(PT.resolve(c.args[0], env))
                handed = a0 == 'self.nnps' or (built is not None and a0 == compact(built))
        kw = dict((k.arg, compact(k.value)) for k in built.keywords) if built is not None else {}
        seen.append(kw)
        ok = ok and built is not None and handed and all(kw.get(k_) == v_ for k_, v_ in want.items())
    return ok and bool(seen), seen[:1]


def U(n):
    return M.unparse(n)


def compact(n):
    return U(n).replace(' ', '')


def sym(fn, e, at, depth=0):
    """expression -> Poly over atoms (array reads, precomputed symbols, INV{..} for divisors), temporaries substituted"""
    if depth > 20:
        return None
    if isinstance(e, ast.Constant) and isinstance(e.value, (int, float)) and not isinstance(e.value, bool):
        return Poly.const(Fraction(e.value).limit_denominator(10 ** 12))
    if isinstance(e, ast.Name):
        best = None
        for a in ast.walk(fn):
            if isinstance(a, ast.Assign) and isinstance(a.targets[0], ast.Name) and a.targets[0].id == e.id and \
                    (a.lineno, a.col_offset) < (at.lineno, at.col_offset):
                if best is None or a.lineno > best.lineno:
                    best = a
        if best is not None and not (isinstance(best.value, ast.Call) and M.call_name(best.value) == 'declare'):
            return sym(fn, best.value, best, depth + 1)
        return Poly.var(e.id)
    if isinstance(e, ast.Subscript):
        return Poly.var(compact(e))
    if isinstance(e, ast.UnaryOp) and isinstance(e.op, ast.USub):
        p = sym(fn, e.operand, at, depth + 1)
        return None if p is None else -p
    if isinstance(e, ast.BinOp):
        a, b = sym(fn, e.left, at, depth + 1), sym(fn, e.right, at, depth + 1)
        if a is None or b is None:
            return None
        if isinstance(e.op, ast.Add):
            return a + b
        if isinstance(e.op, ast.Sub):
            return a - b
        if isinstance(e.op, ast.Mult):
            return a * b
        if isinstance(e.op, ast.Div):
            if b.is_const() and b.const_value() != 0:
                return a * Poly.const(1 / b.const_value())
            return a * Poly.var('INV{%s}' % b)
    return None


def accum(fn):
    """{target text: (op, Poly of the increment, node)} for `d_X[...] += expr` / `= expr` statements of a hook"""
    out = {}
    for a in ast.walk(fn):
        if isinstance(a, ast.AugAssign) and isinstance(a.target, ast.Subscript):
            op = {ast.Add: '+=', ast.Sub: '-=', ast.Div: '/=', ast.Mult: '*='}.get(type(a.op), '?')
            out[compact(a.target)] = (op, sym(fn, a.value, a), a)
        elif isinstance(a, ast.Assign) and isinstance(a.targets[0], ast.Subscript):
            out[compact(a.targets[0])] = ('=', sym(fn, a.value, a), a)
    return out


def methods_mro(tree, cls):
    """methods of a class including those inherited from classes of the same module (nearest definition wins)"""
    out = {}
    seen = set()
    todo = [cls]
    while todo:
        c = todo.pop(0)
        if c is None or c.name in seen:
            continue
        seen.add(c.name)
        for k, v in M.methods(c).items():
            out.setdefault(k, v)
        for b in c.bases:
            if isinstance(b, ast.Name):
                try:
                    todo.append(M.find_class(tree, b.id))
                except Exception:
                    pass
    return out


def rule_normalised(chk, tree):
    for method, cname in sorted(NORMALISED.items()):
        cls = M.find_class(tree, cname)
        ms = methods_mro(tree, cls)
        for need in ('initialize', 'loop', 'post_loop'):
            if need not in ms:
                raise AnalysisError('%s.%s vanished' % (cname, need))
        lp = accum(ms['loop'])
        num = lp.get('d_prop[d_idx]')
        norm_keys = [k for k in lp if k != 'd_prop[d_idx]']
        if num is None or len(norm_keys) != 1:
            chk.undecided('one-weight-in-numerator-and-denominator', method, node=ms['loop'], file=INT, func=cname + '.loop',
                          detail='expected one numerator (d_prop) and one normaliser accumulation, found %s' % sorted(lp))
            continue
        nk = norm_keys[0]
        den = lp[nk]
        src = Poly.var('s_temp_prop[s_idx]')
        ok = num[0] == '+=' and den[0] == '+=' and num[1] is not None and den[1] is not None and (num[1] - den[1] * src).is_zero()
        chk.decide(ok, 'one-weight-in-numerator-and-denominator', method, node=num[2], file=INT, func=cname + '.loop',
                   detail_bad='numerator accumulates %s but the normaliser accumulates %s: the result is not the weighted mean sum(w_j f_j)/sum(w_j), so a '
                              'constant field is not reproduced' % (num[1], den[1]), detail_ok='numerator = (%s) * f_j, normaliser = %s' % (den[1], den[1]))
        # post_loop divides numerator by normaliser under a positivity guard
        pl = ms['post_loop']
        divs = accum(pl)
        d = divs.get('d_prop[d_idx]')
        ok = d is not None and d[0] == '/=' and d[1] is not None and d[1] == Poly.var(nk)
        gi = M.enclosing(d[2], (ast.If,)) if d else None
        okg = False
        if gi is not None and not gi.orelse and isinstance(gi.test, ast.Compare) and len(gi.test.ops) == 1:
            # `normaliser > eps` in either spelling, eps a non-negative literal
            l, r, op = gi.test.left, gi.test.comparators[0], gi.test.ops[0]
            if isinstance(op, (ast.Lt, ast.LtE)):
                l, r, op = r, l, ast.Gt()
            okg = isinstance(op, (ast.Gt, ast.GtE)) and compact(l) == nk and isinstance(r, ast.Constant) and isinstance(r.value, (int, float)) and r.value >= 0
        chk.decide(ok and okg, 'one-weight-in-numerator-and-denominator', method + ':divide', node=pl, file=INT, func=cname + '.post_loop',
                   detail_bad='post_loop does not divide the accumulated value by the accumulated weight %s under a positivity guard (zero where nothing contributes)' % nk,
                   detail_ok='prop /= %s if %s > eps' % (nk, nk))
        ini = accum(ms['initialize'])
        ok = all(k in ini and ini[k][0] == '=' and ini[k][1] is not None and ini[k][1].is_zero() for k in ('d_prop[d_idx]', nk))
        chk.decide(ok, 'one-weight-in-numerator-and-denominator', method + ':zeroed', node=ms['initialize'], file=INT, func=cname + '.initialize',
                   detail_bad='numerator and normaliser are not both zeroed before accumulation', detail_ok='both start at 0')
    # the un-normalised sums: documented as the volume-weighted sums
    for method, cname, w in (('sph', 'InterpolateSPH', 'WIJ'), ('splash', 'SPLASHInterpolateProperty', 'WI')):
        cls = M.find_class(tree, cname)
        ms_ = methods_mro(tree, cls)
        if 'loop' not in ms_ or 'initialize' not in ms_:
            raise AnalysisError('%s has no loop / initialize (own or inherited)' % cname)
        lp = accum(ms_['loop'])
        num = lp.get('d_prop[d_idx]')
        want = Poly.var('s_m[s_idx]') * Poly.var('INV{s_rho[s_idx]}') * Poly.var(w) * Poly.var('s_temp_prop[s_idx]')
        ok = num is not None and num[0] == '+=' and num[1] is not None and (num[1] - want).is_zero()
        chk.decide(ok, 'weighted-sum', method, node=num[2] if num else cls, file=INT, func=cname + '.loop',
                   detail_bad='%s accumulates %s; the method is the sum of (m_j/rho_j) * %s * f_j' % (method, num[1] if num else None, w), detail_ok=str(want))
        ini = accum(ms_['initialize'])
        chk.decide('d_prop[d_idx]' in ini and ini['d_prop[d_idx]'][1] is not None and ini['d_prop[d_idx]'][1].is_zero(), 'weighted-sum', method + ':zeroed',
                   node=cls, file=INT, func=cname + '.initialize', detail_bad='sum not started at zero', detail_ok='starts at 0')


def fold_ok(f_):
    """the function folds the maximum of array.h over self.particle_arrays"""
    for l in ast.walk(f_):
        if isinstance(l, ast.For) and compact(l.iter) == 'self.particle_arrays' and isinstance(l.target, ast.Name):
            v = l.target.id
            for x in ast.walk(l):
                if isinstance(x, ast.Assign) and isinstance(x.targets[0], ast.Name):
                    acc = x.targets[0].id
                    if same_stmt(x, '%s=max(%s.h.max(),%s)' % (acc, v, acc)):
                        return True
    return False


def rule_sources(chk, tree):
    """Interpolator._compile_acceleration_eval interpreted (E8) for every method on three model source arrays: the evaluator is built over the arrays handed in, with the
    method's own equation (dest 'interpolate', every source array a source); order1 with a density summation for every source array over all of them (ghosts included)
    followed by the two approximation steps; user equations are passed through untouched"""
    from verif_static import emit as EM, absint as AI
    raw = M.find_class(tree, 'Interpolator')
    fn = M.find_func(raw, '_compile_acceleration_eval')
    methods = None
    for a_ in raw.body:
        if isinstance(a_, ast.Assign) and compact(a_.targets[0]) == 'METHODS':
            methods = [M.const_str(e) for e in a_.value.elts]
    if not methods:
        raise AnalysisError('Interpolator.METHODS vanished')
    NAMES = ['fluid', 'wall', 'inlet']
    bad, und, nrun = None, None, 0

    def desc(x):
        if isinstance(x, AI.Inst):
            kw = dict(x.kwargs)
            for k_, v_ in zip(('dest', 'sources'), x.args):
                kw.setdefault(k_, v_)
            if x.cls.node.name == 'Group':
                return ('Group', [desc(e) for e in (kw.get('equations') or [])], kw.get('real', True))
            return (x.cls.node.name, kw.get('dest'), list(kw.get('sources')) if isinstance(kw.get('sources'), (list, tuple)) else kw.get('sources'), kw.get('dim'))
        return x
    try:
        for m_ in methods + ['<user equations>']:
            it = EM.interpreter()
            pas = [EM.mock(name=n_) for n_ in NAMES]
            user = [EM.mock(name='UserEq')] if m_ == '<user equations>' else None
            obj = EM.instance(it, INT, 'Interpolator', method=methods[0] if user else m_, particle_arrays=pas, equations=user, dim=2, kernel='K', METHODS=list(methods))
            arrays = pas + [EM.mock(name='interpolate')]
            try:
                EM.call(it, obj, '_compile_acceleration_eval', arrays)
            except AI.Unsupported as ex:
                und = 'method %s: %s' % (m_, ex)
                break
            nrun += 1
            fe = obj.attrs.get('func_eval')
            if not (isinstance(fe, AI.Inst) and fe.cls.node.name == 'AccelerationEval' and len(fe.args) >= 3):
                bad = bad or (m_, 'self.func_eval is %r' % (fe,))
                continue
            if fe.args[0] is not arrays and list(fe.args[0]) != arrays:
                bad = bad or (m_, 'the evaluator is built over %s, not over the arrays handed in' % ([getattr(x, 'attrs', {}).get('name') for x in fe.args[0]],))
            got = [desc(e) for e in fe.args[1]] if isinstance(fe.args[1], (list, tuple)) else fe.args[1]
            if user:
                want = user
                if fe.args[1] is not user and bad is None:
                    bad = (m_, 'user equations are replaced by %s' % (got,))
                continue
            if m_ == 'order1':
                want = [('Group', [('SummationDensity', n_, NAMES, None) for n_ in NAMES], False),
                        ('Group', [('SPHFirstOrderApproximationPreStep', 'interpolate', NAMES, 2)], True), ('Group', [('SPHFirstOrderApproximation', 'interpolate', NAMES, 2)], True)]
            else:
                want = [(EQ_OF[m_], 'interpolate', NAMES, None)]
            if got != want and bad is None:
                bad = (m_, 'the equations are %s, expected %s' % (got, want))
    except AI.Raised as ex:
        bad = bad or ('?', 'raises %s' % ex)
    if und:
        chk.undecided('all-arrays-are-sources', 'equations:model-run', node=fn, file=INT, func='_compile_acceleration_eval', detail='not interpretable on the model: ' + und)
    else:
        chk.decide(bad is None, 'all-arrays-are-sources', 'equations:model-run', node=fn, file=INT, func='_compile_acceleration_eval',
                   detail_bad='method %s with source arrays fluid, wall, inlet: %s - an array left out of the sources does not contribute to the interpolation' % (bad or ('', '')),
                   detail_ok='%d runs: every method builds its own equation over all source arrays; user equations pass through' % nrun)
    chk.floor('model runs of _compile_acceleration_eval', nrun, 6)
    # (the target array itself - name, coordinates, h, properties per method - is decided by the model run rule_target_model)


class _Filled(object):
    """model of a numpy array filled with one value: what `scalar * np.ones_like(a)` / np.full(...) give"""
    def __init__(self, value, like, dtype):
        self.value, self.like, self.dtype = value, like, dtype

    def __mul__(self, o):
        return _Filled(self.value * o, self.like, 'float' if isinstance(o, float) else self.dtype) if isinstance(o, (int, float)) else NotImplemented
    __rmul__ = __mul__

    def __hash__(self):
        return id(self)


def rule_target_model(chk, tree):
    """Interpolator._create_particle_array interpreted (E8) on model sources, for every method and several orders of the source arrays, twice in a row with the source h
    changed in between: the target array is called 'interpolate', sits at the flattened target coordinates, has h = the largest h of the *current* source arrays as
    floats, and carries the properties its method needs (prop; unity for splash_norm; moment/p_sph/prop with strides 16/4/4 for order1)"""
    import itertools
    from verif_static import emit as EM, absint as AI
    raw = M.find_class(tree, 'Interpolator')
    fn = M.find_func(raw, '_create_particle_array')
    methods = None
    for a in raw.body:
        if isinstance(a, ast.Assign) and compact(a.targets[0]) == 'METHODS':
            methods = [M.const_str(e) for e in a.value.elts]
    if not methods:
        raise AnalysisError('Interpolator.METHODS vanished')
    WANT = {'order1': [('moment', 16), ('p_sph', 4), ('prop', 4)], 'splash_norm': [('prop', 1), ('unity', 1)]}
    saved = dict((k, AI.EXTERNAL_CALLS.get(k)) for k in ('numpy.ones_like', 'numpy.zeros_like', 'numpy.full', 'numpy.full_like', 'numpy.ones', 'functools.reduce', 'numpy.ravel',
                                                         'pysph.base.utils.get_particle_array'))
    made = []

    def gpa(i, a, k, n, e):
        props = []

        def addp(i2, a2, k2, n2, e2):
            props.append((k2.get('name', a2[0] if a2 else None), k2.get('stride', a2[3] if len(a2) > 3 else 1)))
            return None
        pa_ = EM.mock(add_property=addp, name=k.get('name'))
        made.append((dict(k), props))
        return pa_

    def red(i, a, k, n, e):
        f_, seq = a[0], a[1]
        acc = a[2] if len(a) > 2 else None
        it_ = list(i.iterate(seq, n))
        if len(a) < 3:
            acc, it_ = it_[0], it_[1:]
        for x_ in it_:
            acc = i.call(f_, [acc, x_], {}, n, e)
        return acc
    AI.EXTERNAL_CALLS['numpy.ones_like'] = lambda i, a, k, n, e: _Filled(1, a[0], k.get('dtype', 'like'))
    AI.EXTERNAL_CALLS['numpy.ones'] = lambda i, a, k, n, e: _Filled(1.0, a[0] if a else k.get('shape'), k.get('dtype', 'float'))
    AI.EXTERNAL_CALLS['numpy.zeros_like'] = lambda i, a, k, n, e: _Filled(0, a[0], 'like')
    AI.EXTERNAL_CALLS['numpy.full'] = lambda i, a, k, n, e: _Filled(a[1], a[0], k.get('dtype', 'float' if isinstance(a[1], float) else 'int'))
    AI.EXTERNAL_CALLS['numpy.full_like'] = lambda i, a, k, n, e: _Filled(a[1], a[0], k.get('dtype', 'like'))
    AI.EXTERNAL_CALLS['numpy.ravel'] = lambda i, a, k, n, e: ('flat', a[0].attrs.get('tok'))
    AI.EXTERNAL_CALLS['functools.reduce'] = red
    AI.EXTERNAL_CALLS['pysph.base.utils.get_particle_array'] = gpa

    def coord(tok):
        return EM.mock(tok=tok, ravel=lambda i, a, k, n, e: ('flat', tok), flatten=lambda i, a, k, n, e: ('flat', tok), squeeze=lambda i, a, k, n, e: ('squeezed', tok))

    def src(hmax):
        return EM.mock(h=EM.mock(max=lambda i, a, k, n, e: hmax), properties={'h': 1, 'x': 1}, add_property=lambda i, a, k, n, e: None)
    bad, und, nrun = None, None, 0
    try:
        for m_ in methods:
            for hs in itertools.permutations((0.3, 0.9, 0.5)):
                it = EM.interpreter()
                it.intrinsics[('pysph/base/utils.py', None, 'get_particle_array')] = lambda i_, f_, a_, k_, n_, e_: gpa(i_, a_, k_, n_, e_)
                arrays = [src(h_) for h_ in hs]
                obj = EM.instance(it, INT, 'Interpolator', method=m_, METHODS=list(methods))
                del made[:]
                try:
                    # as the constructor does: the arrays are installed, then the target points are created
                    EM.call(it, obj, '_set_particle_arrays', arrays)
                    EM.call(it, obj, '_create_particle_array', coord('X'), coord('Y'), coord('Z'))
                    # the sources change in place (a new snapshot loaded into the same arrays), new points are set
                    for ar_, h_ in zip(arrays, (0.2, 0.1, 0.4)):
                        ar_.attrs['h'] = EM.mock(max=(lambda v_: lambda i, a, k, n, e: v_)(h_))
                    EM.call(it, obj, '_create_particle_array', coord('X2'), coord('Y2'), coord('Z2'))
                except AI.Unsupported as ex:
                    und = 'method %s: %s' % (m_, ex)
                    break
                nrun += 1
                if len(made) != 2:
                    bad = bad or (m_, hs, '%d target arrays created by two calls' % len(made))
                    continue
                for (kw, props), toks, hwant in zip(made, (('X', 'Y', 'Z'), ('X2', 'Y2', 'Z2')), (0.9, 0.4)):
                    h_ = kw.get('h')
                    hok = isinstance(h_, _Filled) and h_.value == hwant and h_.dtype in ('float', 'np.float64', 'numpy.float64', float)
                    if kw.get('name') != 'interpolate' or [kw.get(ax) for ax in 'xyz'] != [('flat', t_) for t_ in toks]:
                        bad = bad or (m_, hs, 'target array built with name=%r at x, y, z = %s' % (kw.get('name'), [kw.get(ax) for ax in 'xyz']))
                    elif not hok:
                        bad = bad or (m_, hs, 'with source h maxima %s (then 0.2, 0.1, 0.4) the target h is %s, expected floats equal to %s' % (
                            list(hs), (h_.value, h_.dtype) if isinstance(h_, _Filled) else h_, hwant))
                    elif sorted(props) != sorted(WANT.get(m_, [('prop', 1)])):
                        bad = bad or (m_, hs, 'properties added %s, expected %s' % (sorted(props), sorted(WANT.get(m_, [('prop', 1)]))))
            if und:
                break
    finally:
        for k, v in saved.items():
            if v is None:
                AI.EXTERNAL_CALLS.pop(k, None)
            else:
                AI.EXTERNAL_CALLS[k] = v
    if und:
        chk.undecided('target-points', 'target-array:model-run', node=fn, file=INT, func='_create_particle_array', detail='not interpretable on the model: ' + und)
    else:
        chk.decide(bad is None, 'target-points', 'target-array:model-run', node=fn, file=INT, func='_create_particle_array',
                   detail_bad='method %s, sources %s: %s' % (bad or ('', '', '')), detail_ok='%d runs (every method x every order of three sources, two calls each)' % nrun)
    return nrun


def rule_method_table(chk, tree):
    icls = interp_class(tree)
    methods = None
    for a in icls.body:
        if isinstance(a, ast.Assign) and compact(a.targets[0]) == 'METHODS':
            methods = [M.const_str(e) for e in a.value.elts]
    if not methods:
        raise AnalysisError('Interpolator.METHODS vanished')

    def mentioned(fn):
        out = set()
        for c in ast.walk(fn):
            if isinstance(c, ast.Compare) and compact(c.left) == 'self.method':
                for s in M.str_consts(c):
                    out.add(s)
        return out
    for fname in ('interpolate',):
        fn = M.find_func(icls, fname)
        got = mentioned(fn)
        has_else = True
        # methods not mentioned must be handled by the final else (order1)
        rest = set(methods) - got
        chk.decide(got <= set(methods) and rest <= {'order1'}, 'method-table', fname, node=fn, file=INT, func=fname,
                   detail_bad='methods tested %s vs METHODS %s (unhandled %s fall into the order1 branch)' % (sorted(got), methods, sorted(rest - {'order1'})),
                   detail_ok='%s explicit, order1 by default' % sorted(got))
    # (which equation a method builds: rule_sources, by model run)
    init = M.find_func(icls, '__init__')
    ok = any(isinstance(i, ast.If) and compact(i.test) == 'methodnotinself.METHODS' and any(isinstance(b, ast.Raise) for b in i.body) for i in ast.walk(init))
    chk.decide(ok, 'method-table', 'unknown-method-raises', node=init, file=INT, func='Interpolator.__init__', detail_bad='unknown method accepted', detail_ok='raises')


def on_every_path(fn, call_texts):
    """every path from the entry of fn to its exit passes a statement that is exactly each of the given calls"""
    g = C.build_cfg(fn)
    for text in call_texts:
        ids = [n.id for n in g.nodes if n.ast is not None and isinstance(n.ast, ast.Expr) and isinstance(n.ast.value, ast.Call) and compact(n.ast.value) == text]
        if not ids or not g.must_pass(g.entry, g.exit, ids):
            return False
    return True


def rule_every_neighbour_contributes(chk, tree):
    """the interpolated value is a sum over every neighbour, followed (for some methods) by a normalisation or a small solve: in the pair hooks of the interpolation equations
    no store into a destination array stands under a test on particle data (a neighbour with a small density, a small weight ... still contributes what the formula says), and
    in post_loop a store / a call of the solver may be conditional only on the quantity it divides by (the accumulated weight of an empty neighbourhood) - not on the size
    of the sum that is being interpolated"""
    n = 0
    for cls in [c for c in M.classes(tree) if any(M.dotted(b).split('.')[-1] == 'Equation' for b in c.bases)]:
        for hname in ('loop', 'loop_all', 'post_loop'):
            fn = M.methods(cls).get(hname)
            if fn is None:
                continue
            M.set_parents(fn)
            arrays = set(a.arg for a in fn.args.args if a.arg.startswith(('d_', 's_')))
            acts = [a for a in ast.walk(fn) if (isinstance(a, (ast.Assign, ast.AugAssign)) and isinstance((a.targets[0] if isinstance(a, ast.Assign) else a.target), ast.Subscript)
                                                and U((a.targets[0] if isinstance(a, ast.Assign) else a.target).value).startswith('d_')) or
                    (isinstance(a, ast.Expr) and isinstance(a.value, ast.Call) and M.call_name(a.value) in ('gj_solve', 'augmented_matrix'))]
            for a in acts:
                n += 1
                cur, bad = a, None
                while getattr(cur, 'parent', None) is not None and cur.parent is not fn:
                    par = cur.parent
                    if isinstance(par, ast.If) and cur is not par.test:
                        subj = set(U(x) for x in ast.walk(par.test) if isinstance(x, ast.Subscript) and isinstance(x.value, ast.Name) and x.value.id in arrays)
                        if subj:
                            divisors = set()
                            for st_ in par.body:
                                for d_ in ast.walk(st_):
                                    if isinstance(d_, ast.BinOp) and isinstance(d_.op, ast.Div):
                                        divisors |= set(U(x) for x in ast.walk(d_.right) if isinstance(x, ast.Subscript))
                                    if isinstance(d_, ast.AugAssign) and isinstance(d_.op, ast.Div):
                                        divisors |= set(U(x) for x in ast.walk(d_.value) if isinstance(x, ast.Subscript))
                            normaliser = hname == 'post_loop' and subj <= divisors
                            if not normaliser:
                                bad = (par, sorted(subj))
                    cur = par
                if bad is not None:
                    chk.violated('every-neighbour-contributes', '%s.%s@%d' % (cls.name, hname, getattr(a, 'lineno', 0)), node=bad[0], file=INT, func='%s.%s' % (cls.name, hname),
                                 detail='`%s` happens only if `%s`: %s - the documented sum / solve is skipped for particles whose data fall below an absolute threshold (densities or '
                                        'fields in small units), the value comes back as 0' % (U(a)[:60], U(bad[0].test), 'a test on particle data in a pair hook' if hname != 'post_loop' else
                                                                                                 'a test on something other than the divisor of the guarded statements'))
    chk.floor('stores / solves in interpolation equation hooks', n, 12)
    chk.holds('every-neighbour-contributes', 'scanned', file=INT, func='interpolation equations', line=0, detail='%d stores / solves scanned' % n)


def rule_grid_dimensions(chk, tree):
    """the dimension the interpolation works in (kernel normalisation, neighbour search, size of the order1 system) is read off the automatic grid: the number of directions
    that get more than one point.  A direction counts from a relative extent of 1e-4 on (thin slabs resolved by particles are still interpolated across); the test that gives a
    direction its points must not be coarser than that"""
    fn = M.find_func(tree, 'get_nx_ny_nz')
    M.set_parents(fn)
    defs = local_defs(fn.body)
    found = []
    from verif_static import paths as PT
    # per path that reaches a store into the grid sizes: the weakest lower bound on a relative extent that the path has established (an `if rel > c:` around the store,
    # `if not rel > c: continue` before it, `if rel <= c: continue`, a boolean mask `rel > c` used as the index) - whatever the spelling
    # the grid sizes: the array the function hands back (whatever it is called)
    grid_names = set(r_.value.id for r_ in ast.walk(fn) if isinstance(r_, ast.Return) and isinstance(r_.value, ast.Name))
    for p_ in PT.enumerate_paths(M.docstring_stripped(fn.body)):
        for k_, e in enumerate(p_):
            if not (e.kind == 'stmt' and isinstance(e.node, ast.Assign) and isinstance(e.node.targets[0], ast.Subscript) and compact(e.node.targets[0].value) in grid_names):
                continue
            bounds_ = []
            for t_, tr_ in PT.path_facts(p_[:k_]):
                if isinstance(t_, ast.Compare) and len(t_.ops) == 1:
                    op, l_, r_ = t_.ops[0], t_.left, t_.comparators[0]
                    if isinstance(r_, ast.Constant) and isinstance(r_.value, (int, float)) and not isinstance(l_, ast.Constant):
                        if (isinstance(op, (ast.Gt, ast.GtE)) and tr_) or (isinstance(op, (ast.Lt, ast.LtE)) and not tr_):
                            bounds_.append(float(r_.value))
                    elif isinstance(l_, ast.Constant) and isinstance(l_.value, (int, float)):
                        if (isinstance(op, (ast.Lt, ast.LtE)) and tr_) or (isinstance(op, (ast.Gt, ast.GtE)) and not tr_):
                            bounds_.append(float(l_.value))
            idx = e.node.targets[0].slice
            if isinstance(idx, ast.Name):
                m_ = inline(idx, defs)
                if isinstance(m_, ast.Compare) and len(m_.ops) == 1 and isinstance(m_.ops[0], (ast.Gt, ast.GtE)) and isinstance(m_.comparators[0], ast.Constant):
                    bounds_.append(float(m_.comparators[0].value))
            found.append(max(bounds_) if bounds_ else None)
    # ... and it is read off the particles on every path through the constructor, also when the target points are given explicitly (a slice of 3D data given as x, y only
    # is still a 3D interpolation)
    icls_ = interp_class(tree)
    ini = M.find_func(icls_, '__init__')
    bad_d, nd = None, 0
    for p_ in PT.enumerate_paths(M.docstring_stripped(ini.body)):
        if p_[-1].kind == 'raise':
            continue
        st = [e for e in p_ if e.kind == 'stmt' and isinstance(e.node, ast.Assign) and compact(e.node.targets[0]) == 'self.dim']
        if not st:
            bad_d = bad_d or 'a path through the constructor leaves self.dim unset'
            continue
        nd += 1
        v = PT.resolve(st[-1].node.value, st[-1].env)
        calls_ = [M.call_name(c_) for c_ in ast.walk(v) if isinstance(c_, ast.Call)]
        if not ('get_nx_ny_nz' in calls_ and 'get_bounding_box' in calls_ and 'self.particle_arrays' in compact(v)):
            bad_d = bad_d or 'on a path (%s) self.dim = %s' % ([compact(x) + ' is %s' % t_ for x, t_ in PT.path_facts(p_)][:2], U(v)[:80])
    chk.decide(bad_d is None and nd > 0, 'rebinding', 'grid:dimension-read-off-the-particles', node=ini, file=INT, func='Interpolator.__init__',
               detail_bad='%s: the dimension (kernel normalisation, neighbour search, size of the order1 system) must be the number of directions the particle data extend in - '
                          'get_nx_ny_nz(.., get_bounding_box(self.particle_arrays)) - whatever target points are given' % bad_d,
               detail_ok='%d paths: self.dim from the automatic grid over the bounding box of the particle arrays' % nd)
    ok = bool(found) and all(c is not None and c <= 1e-4 for c in found)
    chk.decide(ok, 'rebinding', 'grid:direction-resolved-from-1e-4', node=fn, file=INT, func='get_nx_ny_nz',
               detail_bad='a direction gets more than one grid point only above a relative extent of %s (1e-4 documented): a thin but resolved direction (relative extent between 1e-4 and '
                          'that) collapses to one point, the interpolator then works one dimension lower - wrong kernel normalisation, zero gradient across the slab' % found,
               detail_ok='directions with relative extent above 1e-4 are gridded')


def rule_rebinding(chk, tree):
    icls = interp_class(tree)
    upa = M.find_func(icls, 'update_particle_arrays')
    from verif_static import paths as PT
    par_ = [a_ for a_ in M.arg_names(upa) if a_ != 'self'][0]
    upaths = [p_ for p_ in PT.enumerate_paths(M.docstring_stripped(upa.body)) if p_[-1].kind != 'raise']
    ok = bool(upaths)
    for p_ in upaths:
        cl = [(i, cal, [compact(PT.resolve(a_, env)) for a_ in c_.args]) for i, c_, cal, env in PT.calls_on(p_)]
        st_ = [i for i, cal, ar in cl if cal == 'self._set_particle_arrays' and ar == [par_]]
        nn_ = [i for i, cal, ar in cl if cal == 'self._create_nnps' and ar == ['self.particle_arrays+[self.pa]']]
        ev_ = [i for i, cal, ar in cl if cal == 'self.func_eval.update_particle_arrays' and ar == ['self.particle_arrays+[self.pa]']]
        if not (st_ and nn_ and ev_ and min(st_) < min(nn_) and min(st_) < min(ev_)):
            ok = False
    chk.decide(ok, 'rebinding', 'Interpolator.update_particle_arrays', node=upa, file=INT, func='update_particle_arrays',
               detail_bad='new arrays are not installed, given a new neighbour structure over (sources + target) AND re-bound in the evaluator',
               detail_ok='set arrays; new NNPS over sources+target; evaluator re-bound to the same list')
    cn = M.find_func(icls, '_create_nnps')
    ok, kw = nnps_built_over(cn, 'NNPS', {'particles': 'arrays', 'radius_scale': 'self.kernel.radius_scale', 'dim': 'self.kernel.dim', 'domain': 'self.domain_manager'})
    chk.decide(ok, 'rebinding', 'Interpolator._create_nnps', node=cn, file=INT, func='_create_nnps',
               detail_bad='the neighbour structure is not built over the given arrays with the kernel radius and domain and handed to the evaluator: %s' % kw,
               detail_ok='NNPS(particles=arrays, kernel radius, domain); set_nnps')
    sip = M.find_func(icls, 'set_interpolation_points')
    g2 = C.build_cfg(sip)
    up = [n.id for n in g2.nodes if n.ast is not None and isinstance(n.ast, ast.Expr) and M.call_name(n.ast.value) == 'self.update_particle_arrays']
    pa = [n.id for n in g2.nodes if n.ast is not None and isinstance(n.ast, ast.Assign) and compact(n.ast.targets[0]) == 'self.pa']
    ok = bool(up and pa) and g2.dominates(pa[0], up[0]) and g2.must_pass(pa[0], g2.exit, up)
    chk.decide(ok, 'rebinding', 'set_interpolation_points', node=sip, file=INT, func='set_interpolation_points',
               detail_bad='after new target points are set the neighbour structure / evaluator binding is not refreshed on every path', detail_ok='update_particle_arrays on every path after the target array is rebuilt')
    # every call that returns has built the target array anew from all three coordinates - a coordinate that is not given is zero, not what the previous points had there
    from verif_static import paths as PT_
    bad_sp, nsp = None, 0
    for p_ in PT_.enumerate_paths(M.docstring_stripped(sip.body)):
        if p_[-1].kind == 'raise' or (p_[-1].kind == 'stmt' and isinstance(p_[-1].node, ast.Raise)):
            continue
        if any(e.kind == 'stmt' and isinstance(e.node, ast.Raise) for e in p_):
            continue
        nsp += 1
        st = [(i, e) for i, e in enumerate(p_) if e.kind == 'stmt' and isinstance(e.node, ast.Assign) and compact(e.node.targets[0]) == 'self.pa']
        if not st:
            bad_sp = bad_sp or 'a path returns without building the target array anew (tests: %s)' % [compact(x) + ' is %s' % t_ for x, t_ in PT_.path_facts(p_)][-3:]
            continue
        v = st[-1][1].node.value
        if not (isinstance(v, ast.Call) and M.call_name(v) == 'self._create_particle_array' and len(v.args) == 3):
            bad_sp = bad_sp or 'the target array is `%s`' % compact(v)[:60]
    chk.decide(bad_sp is None and nsp > 0, 'rebinding', 'set_interpolation_points:target-array-rebuilt-from-all-coordinates', node=sip, file=INT, func='set_interpolation_points',
               detail_bad='%s: points moved in place keep the old value of every coordinate that was not passed (documented: zero)' % bad_sp,
               detail_ok='%d returning paths: self.pa = self._create_particle_array(x, y, z)' % nsp)
    cmp_ = [n.id for n in g2.nodes if n.ast is not None and isinstance(n.ast, ast.Expr) and M.call_name(n.ast.value) == 'self._compile_acceleration_eval']
    if cmp_:
        gi = M.enclosing(g2.nodes[cmp_[0]].ast, (ast.If,))
        chk.decide(gi is not None and compact(gi.test) == 'self.func_evalisNone' and g2.dominates(pa[0], cmp_[0]), 'rebinding', 'compiled-once-with-target', node=sip, file=INT,
                   func='set_interpolation_points', detail_bad='evaluator compilation guard changed', detail_ok='compiled once, after the target array exists')
    sd = M.find_func(icls, 'set_domain')
    gsd = C.build_cfg(sd)
    sip_calls = [n.id for n in gsd.nodes if n.ast is not None and isinstance(n.ast, ast.Expr) and isinstance(n.ast.value, ast.Call) and M.call_name(n.ast.value) == 'self.set_interpolation_points'
                 and (len(n.ast.value.args) + len(n.ast.value.keywords) == 3 or any(isinstance(a_, ast.Starred) for a_ in n.ast.value.args))]
    chk.decide(bool(sip_calls) and gsd.must_pass(gsd.entry, gsd.exit, sip_calls), 'rebinding', 'set_domain', node=sd, file=INT, func='set_domain',
               detail_bad='set_domain does not go through set_interpolation_points', detail_ok='delegates')
    upd = M.find_func(icls, 'update')
    src = compact(upd)
    ok = 'ifupdate_domain:self.nnps.update_domain()' in src.replace('\n', '') and 'self.nnps.update()' in src
    chk.decide(ok, 'rebinding', 'Interpolator.update', node=upd, file=INT, func='update', detail_bad='update() does not refresh ghosts (optionally) and the neighbour structure',
               detail_ok='update_domain (optional) then update')
    # interpolate: property staged into temp_prop of EVERY array before compute
    ip = M.find_func(icls, 'interpolate')
    # decided per path (path-local names substituted): every source array gets, before the evaluation, temp_prop[:] = its own values of the property (all particles) or 0.0 when it lacks it
    from verif_static import paths as PT
    pname = [a_ for a_ in M.arg_names(ip) if a_ != 'self'][0]
    loops = [l for l in ast.walk(ip) if isinstance(l, ast.For) and compact(l.iter) == 'self.particle_arrays' and isinstance(l.target, ast.Name)]
    ok = False
    if loops:
        l = loops[0]
        av = l.target.id
        ok = True
        seen_has = seen_not = False
        for q_ in PT.enumerate_paths(list(l.body)):
            sto = [(i, tg, v) for i, tg, v in PT.stores_on(q_) if tg.replace(' ', '') in ("%s.get('temp_prop',only_real_particles=False)[:]" % av,)]
            has = PT.took(q_, True, '%s in %s.properties' % (pname, av)) is not None
            hasnot = PT.took(q_, False, '%s in %s.properties' % (pname, av)) is not None
            if len(sto) != 1 or not (has or hasnot):
                ok = False
                continue
            val = sto[0][2]
            if has:
                seen_has = True
                ok = ok and compact(val) == '%s.get(%s,only_real_particles=False)' % (av, pname)
            else:
                seen_not = True
                ok = ok and isinstance(val, ast.Constant) and val.value == 0
        ok = ok and seen_has and seen_not
        # ... and that happens before the evaluation
        for p_ in PT.enumerate_paths(M.docstring_stripped(ip.body)):
            li = [i for i, e in enumerate(p_) if e.kind == 'loop' and e.node is l]
            ci = [i for i, c_, cal, env in PT.calls_on(p_) if cal == 'self.func_eval.compute']
            if ci and (not li or min(ci) < max(li)):
                ok = False
            # ... on every path that hands a result back: a remembered "already solved for this property" is stale as soon as the source values change in place
            if p_[-1].kind == 'return' and (not li or not ci):
                ok = False
    chk.decide(ok, 'rebinding', 'interpolate:stage-property-of-every-array', node=ip, file=INT, func='interpolate',
               detail_bad='the property is not copied into temp_prop of every source array (all particles; 0 where the array lacks it) before the evaluation',
               detail_ok='temp_prop[:] = prop (or 0) for every array, then compute')
    cpar_ = ([a_ for a_ in M.arg_names(ip) if a_ != 'self'] + ['comp', 'comp'])[1]
    res = dict((compact(a.value).replace('[%s::4]' % cpar_, '[comp::4]'), a) for a in ast.walk(ip) if isinstance(a, ast.Assign) and isinstance(a.targets[0], ast.Name) and 'self.pa.prop' in compact(a.value))
    chk.decide('self.pa.prop.copy()' in res and 'self.pa.prop[comp::4].copy()' in res, 'rebinding', 'interpolate:result-stride', node=ip, file=INT, func='interpolate',
               detail_bad='result read as %s (scalar methods: prop; order1: prop[comp::4])' % sorted(res), detail_ok='prop / prop[comp::4]')
    sp = M.find_func(icls, '_set_particle_arrays')
    # decided by a model run: three arrays, the middle one already has the staging property - afterwards the interpolator holds the very list given and every array has temp_prop,
    # added once where it was missing
    from verif_static import emit as EM, absint as AI
    ok, why = False, ''
    try:
        it_ = EM.interpreter()
        added_ = []

        def mk(nm, has):
            props = {'x': 1, 'h': 1}
            if has:
                props['temp_prop'] = 1

            def addp(i, a, k, n, e, props=props, nm=nm):
                name_ = a[0] if a else k.get('name')
                added_.append((nm, name_))
                props[name_] = 1
            return EM.mock(name=nm, properties=props, add_property=addp)
        arrs = [mk('a', False), mk('b', True), mk('c', False)]
        obj = EM.instance(it_, INT, 'Interpolator', particle_arrays=[mk('old', True)])
        EM.call(it_, obj, '_set_particle_arrays', arrs)
        ok = obj.attrs.get('particle_arrays') is arrs and sorted(added_) == [('a', 'temp_prop'), ('c', 'temp_prop')]
        why = 'arrays stored: %s; add_property calls: %s' % (obj.attrs.get('particle_arrays') is arrs, added_)
    except (AI.Unsupported, AI.Raised) as e:
        why = 'not interpretable on the model: %s' % e
    chk.decide(ok, 'rebinding', '_set_particle_arrays', node=sp, file=INT, func='_set_particle_arrays',
               detail_bad='new arrays are not stored / given temp_prop where it is missing (model run: %s)' % why, detail_ok='stored; temp_prop ensured')
    # SPHEvaluator
    st = M.py(SEV)
    ecls_raw = M.find_class(st, 'SPHEvaluator')
    # private helpers factored out of the methods are inlined again; a local that only names an attribute (`nnps = self.nnps`) is that attribute
    ecls = M.self_aliases_inlined(M.inlined_class(ecls_raw, keep=set(['_create_nnps']) | set(n_ for n_ in M.methods(ecls_raw) if not n_.startswith('_') or n_ == '__init__')))
    e_up = M.find_func(ecls, 'update_particle_arrays')
    src = compact(e_up)
    chk.decide(on_every_path(e_up, ['self._create_nnps(arrays)', 'self.func_eval.update_particle_arrays(arrays)']), 'rebinding', 'SPHEvaluator.update_particle_arrays', node=e_up,
               file=SEV, func='SPHEvaluator.update_particle_arrays', detail_bad='not every path gives the arrays passed in both a new neighbour structure built on them and a re-bound evaluator '
               '(a reused neighbour structure may have been built on other arrays: SPHEvaluator keeps no record of the arrays the current one was built on)',
               detail_ok='new NNPS and evaluator re-bound to the same arrays')
    e_cn = M.find_func(ecls, '_create_nnps')
    ok, kw = nnps_built_over(e_cn, 'self.nnps_factory', {'particles': 'arrays', 'radius_scale': 'self.kernel.radius_scale', 'domain': 'self.domain_manager'})
    chk.decide(ok, 'rebinding', 'SPHEvaluator._create_nnps', node=e_cn, file=SEV, func='SPHEvaluator._create_nnps', detail_bad=str(kw), detail_ok='factory(particles=arrays, ...); set_nnps')
    e_init = M.find_func(ecls, '__init__')
    g4 = C.build_cfg(e_init)
    comp_names = [a_.targets[0].id for a_ in ast.walk(e_init) if isinstance(a_, ast.Assign) and isinstance(a_.targets[0], ast.Name) and isinstance(a_.value, ast.Call)
                  and (M.call_name(a_.value) or '').endswith('SPHCompiler')]
    a = [n.id for n in g4.nodes if n.ast is not None and isinstance(n.ast, ast.Expr) and isinstance(n.ast.value, ast.Call) and (M.call_name(n.ast.value) or '') in [c_ + '.compile' for c_ in comp_names]]
    b = [n.id for n in g4.nodes if n.ast is not None and isinstance(n.ast, ast.Expr) and M.call_name(n.ast.value) == 'self._create_nnps']
    chk.decide(bool(a and b) and g4.dominates(a[0], b[0]), 'rebinding', 'SPHEvaluator.__init__', node=e_init, file=SEV, func='SPHEvaluator.__init__',
               detail_bad='evaluator is not compiled and then given its neighbour structure at construction', detail_ok='compile then _create_nnps(arrays)')
    e_u = M.find_func(ecls, 'update')
    src = compact(e_u)
    chk.decide('ifupdate_domain:self.nnps.update_domain()' in src.replace('\n', '') and 'self.nnps.update()' in src, 'rebinding', 'SPHEvaluator.update', node=e_u, file=SEV,
               func='SPHEvaluator.update', detail_bad='update() does not refresh the neighbour structure', detail_ok='update_domain (optional) then update')


def rule_order1(chk, tree):
    """'order1' reproduces every linear field: with p_j = p_i - g . x_ij the contribution of each neighbour to the right-hand side equals its contribution to the moment
    matrix applied to (p_i, g) - an algebraic identity per pair, hence M (p_i, g) = b after summation whatever the particle positions; plus the storage layout the solve
    relies on and the zeroing of everything that is accumulated"""
    from verif_static import symb as S
    pre = M.find_class(tree, 'SPHFirstOrderApproximationPreStep')
    fo = M.find_class(tree, 'SPHFirstOrderApproximation')
    lp_m, lp_b = M.methods(pre)['loop'], M.methods(fo)['loop']
    ctx = S.Ctx(seconds=20)

    def increments(fn, arr, stride):
        ev = S.Evaluator(ctx, ast.FunctionDef(name='loop', args=fn.args, body=M.docstring_stripped(fn.body), decorator_list=[]))
        ev.run()
        out = {}
        for k, v in ev.env.items():
            if k.startswith(arr + '['):
                # index = stride*d_idx + offset
                idx = ast.parse(k[len(arr) + 1:-1], mode='eval').body
                ip = ev.ev(idx) if not isinstance(idx, ast.Constant) else S.Poly.const(idx.value)
                off = ctx.simplify(ip - ctx.var('d_idx') * S.Poly.const(stride))
                if not off.is_const():
                    raise S.Unsupported('index %s of %s is not %d*d_idx + constant' % (k, arr, stride))
                out[int(off.const_value())] = ctx.simplify(v - ctx.var(k))
        return out
    try:
        dM = increments(lp_m, 'd_moment', 16)
        db = increments(lp_b, 'd_p_sph', 4)
        chk.decide(sorted(dM) == list(range(16)) and sorted(db) == list(range(4)), 'order1-linear-reproduction', 'all-entries-accumulated', node=lp_m, file=INT,
                   func='SPHFirstOrderApproximationPreStep.loop', detail_bad='moment entries %s / right-hand-side entries %s accumulated; expected 0..15 and 0..3' % (sorted(dM), sorted(db)),
                   detail_ok='16 moment entries at 16*d_idx + 4r + c, 4 right-hand-side entries at 4*d_idx + r')
        u = [ctx.var('P_I'), ctx.var('G0'), ctx.var('G1'), ctx.var('G2')]
        pj = u[0] - ctx.mul(u[1], ctx.var('XIJ[0]')) - ctx.mul(u[2], ctx.var('XIJ[1]')) - ctx.mul(u[3], ctx.var('XIJ[2]'))

        def lin(name):
            return pj if name == 's_temp_prop[s_idx]' else None
        for r in range(4):
            row = S.Poly()
            for c in range(4):
                row = row + ctx.mul(dM.get(4 * r + c, S.Poly()), u[c])
            rhs = ctx.rename(db.get(r, S.Poly()), lin)
            ok = ctx.prove_zero(row - rhs)[0]
            chk.decide(ok, 'order1-linear-reproduction', 'row-%d' % r, node=lp_b, file=INT, func='SPHFirstOrderApproximation.loop',
                       detail_bad='for a linear field p_j = p_i - g.x_ij neighbour j adds %s to row %d of the right-hand side but (its moment-matrix row) . (p_i, g) is %s: M (p_i, g) != b, '
                                  'so a linear field is not reproduced' % (rhs, r, row), detail_ok='sum_c dM[%d][c] u_c == db[%d] identically' % (r, r))
    except (S.Unsupported, S.Budget) as e:
        chk.undecided('order1-linear-reproduction', 'per-pair-identity', node=lp_m, file=INT, func='SPHFirstOrderApproximationPreStep.loop', detail=str(e))
    # everything that is accumulated is zeroed first, for every entry
    for cls, arrs in ((pre, (('d_moment', 16),)), (fo, (('d_p_sph', 4), ('d_prop', 4)))):
        ini = M.methods(cls)['initialize']
        for arr, n in arrs:
            zero = set()
            for a in ast.walk(ini):
                if isinstance(a, ast.Assign) and isinstance(a.targets[0], ast.Subscript) and compact(a.targets[0].value) == arr and isinstance(a.value, ast.Constant) and a.value.value == 0:
                    loops = {}
                    cur = a
                    M.set_parents(ini)
                    while getattr(cur, 'parent', None) is not None and cur.parent is not ini:
                        cur = cur.parent
                        if isinstance(cur, ast.For) and isinstance(cur.target, ast.Name) and isinstance(cur.iter, ast.Call) and compact(cur.iter.func) == 'range' and \
                                len(cur.iter.args) == 1 and isinstance(cur.iter.args[0], ast.Constant):
                            loops[cur.target.id] = cur.iter.args[0].value
                    import itertools
                    names = sorted(loops)
                    for vals in itertools.product(*[range(loops[k]) for k in names]):
                        env = dict(zip(names, vals))
                        try:
                            pidx = from_env_index(a.targets[0].slice, env, n)
                        except ValueError:
                            pidx = None
                        if pidx is not None:
                            zero.add(pidx)
            chk.decide(zero == set(range(n)), 'order1-linear-reproduction', 'zeroed:%s' % arr, node=ini, file=INT, func=cls.name + '.initialize',
                       detail_bad='initialize zeroes entries %s of the %d-vector %s per particle; entries %s keep their value from the previous evaluation and are accumulated into / returned again '
                                  '(a second interpolate() on the same data gives a different answer)' % (sorted(zero), n, arr, sorted(set(range(n)) - zero)),
                       detail_ok='all %d entries reset' % n)
    # the solve uses the layout the accumulation wrote
    pl = M.methods(fo)['post_loop']
    # (the scratch matrices are identified by their role in the two calls, not by their names)
    aug = [c for c in M.calls(pl) if M.call_name(c) == 'augmented_matrix']
    gj = [c for c in M.calls(pl) if M.call_name(c) == 'gj_solve']
    ok = okb = oko = False
    if len(aug) == 1 and len(gj) == 1 and len(aug[0].args) == 6 and len(gj[0].args) == 4 and all(isinstance(x, ast.Name) for x in (aug[0].args[0], aug[0].args[1], aug[0].args[5], gj[0].args[3])):
        A_, B_, N_a, one_a, four_a, AUG_ = aug[0].args
        AUG_g, N_g, one_g, RES_ = gj[0].args
        ldp = N.local_defs(pl.body)
        ok = compact(AUG_g) == compact(AUG_) and compact(one_a) == '1' and compact(one_g) == '1' and compact(four_a) == '4' and aug[0].lineno < gj[0].lineno and \
            same(N.inline(N_a, ldp), 'self.dim+1') and same(N.inline(N_g, ldp), 'self.dim+1')

        def copies(dst, text, count):
            # for v in range(count): dst[v] = <text with i := v>
            for l_ in [l_ for l_ in ast.walk(pl) if isinstance(l_, ast.For) and isinstance(l_.target, ast.Name) and compact(l_.iter) == 'range(%d)' % count]:
                for a_ in l_.body:
                    if isinstance(a_, ast.Assign) and compact(a_.targets[0]) == '%s[%s]' % (dst, l_.target.id) and same(N.inline(a_.value, ldp), text.replace('<i>', l_.target.id)):
                        return True
            return False
        ok = ok and copies(A_.id, 'd_moment[16*d_idx+<i>]', 16)
        okb = copies(B_.id, 'd_p_sph[4*d_idx+<i>]', 4)
        for l_ in [l_ for l_ in ast.walk(pl) if isinstance(l_, ast.For) and isinstance(l_.target, ast.Name) and compact(l_.iter) == 'range(4)' and l_.lineno > gj[0].lineno]:
            for a_ in l_.body:
                if isinstance(a_, ast.Assign) and isinstance(a_.targets[0], ast.Subscript) and compact(a_.targets[0].value) == 'd_prop':
                    tl_ = ast.Subscript(value=a_.targets[0].value, slice=a_.targets[0].slice, ctx=ast.Load())
                    oko = same(N.inline(tl_, ldp), 'd_prop[4*d_idx+%s]' % l_.target.id) and compact(a_.value) == '%s[%s]' % (RES_.id, l_.target.id)
    chk.decide(bool(ok and okb and oko), 'order1-linear-reproduction', 'solve-uses-the-accumulated-layout', node=pl, file=INT, func='SPHFirstOrderApproximation.post_loop',
               detail_bad='post_loop must copy the 4x4 row-major moment block and the 4-vector of this particle, solve the leading (dim+1) system with augmented_matrix(a, b, n, 1, 4, aug) / '
                          'gj_solve(aug, n, 1, res) and store res into d_prop[4*d_idx + i]', detail_ok='copy, augmented_matrix(.., n, 1, 4, ..), gj_solve(.., n, 1, res), store')


def rule_own_evaluator(chk, tree):
    """the compiled evaluator holds the arrays and the neighbour structure it was last bound to, so it belongs to one interpolator: whatever is stored in self.func_eval
    is an AccelerationEval constructed by that very call (not looked up in a table shared between instances), and it is never published to a shared table;
    the target coordinates are flattened in the order in which the result is reshaped (C order)"""
    icls = interp_class(tree)
    n = 0
    for name, fn in sorted(M.methods(icls).items()):
        for a in ast.walk(fn):
            if isinstance(a, ast.Assign) and any(compact(t_) == 'self.func_eval' for t_ in a.targets):
                n += 1
                fresh = isinstance(a.value, ast.Call) and (M.call_name(a.value) or '').split('.')[-1] == 'AccelerationEval'
                none_ = isinstance(a.value, ast.Constant) and a.value.value is None
                chk.decide(fresh or none_, 'rebinding', 'evaluator-is-this-interpolators-own@%s' % name, node=a, file=INT, func='Interpolator.' + name,
                           detail_bad='`%s`: the evaluator is taken from somewhere else than a construction in this call; an evaluator shared between interpolators computes on the arrays '
                                      'and targets of whichever instance bound it last' % U(a), detail_ok='constructed here')
            if isinstance(a, ast.Assign) and isinstance(a.value, ast.Attribute) and compact(a.value) == 'self.func_eval' and isinstance(a.targets[0], ast.Subscript):
                chk.violated('rebinding', 'evaluator-not-shared@%s' % name, node=a, file=INT, func='Interpolator.' + name,
                             detail='`%s` publishes this interpolator\'s evaluator in a table: another instance that picks it up computes on this one\'s arrays' % U(a))
    chk.floor('assignments of the compiled evaluator', n, 2)
    cpa = M.find_func(icls, '_create_particle_array')
    rv = [c for c in M.calls(cpa) if isinstance(c.func, ast.Attribute) and c.func.attr in ('ravel', 'flatten', 'reshape')]
    bad = [c for c in rv if any(k.arg == 'order' and not (isinstance(k.value, ast.Constant) and k.value.value == 'C') for k in c.keywords) or
           (c.func.attr in ('ravel', 'flatten') and c.args and not (isinstance(c.args[0], ast.Constant) and c.args[0].value == 'C'))]
    chk.decide(bool(rv) and not bad, 'target-points', 'flattened-in-the-order-the-result-is-reshaped', node=bad[0] if bad else cpa, file=INT, func='_create_particle_array',
               detail_bad='`%s` flattens the target coordinates in memory order; interpolate() reshapes the flat result in C order, so for Fortran-ordered (or differently laid out) '
                          'coordinate arrays result[i, j] is the value at another point' % (U(bad[0]) if bad else ''), detail_ok='C order on both sides')


def rule_targets_and_groups(chk, tree):
    """the target points get h = max source h as a float for every point; densities of the sources are computed for ghosts too (periodic images) before they are used;
    the neighbour structure of an SPHEvaluator is rebuilt with the domain it was constructed with"""
    icls = interp_class(tree)
    # (h of the target points: rule_target_model)
    # order1: source densities before the moments, in a group that includes ghosts
    cae = M.find_func(icls, '_compile_acceleration_eval')
    groups = [c for c in M.calls(cae) if M.call_name(c) == 'Group']
    sd_groups = []
    for gcall in groups:
        kw = dict((k.arg, k.value) for k in gcall.keywords)
        eqs = kw.get('equations')
        names = set(M.call_name(c) for c in M.calls(eqs)) if eqs is not None else set()
        if isinstance(eqs, ast.BinOp) or isinstance(eqs, ast.Name):
            # a list built elsewhere: resolve local names
            for n_ in ast.walk(eqs):
                if isinstance(n_, ast.Name):
                    for a in ast.walk(cae):
                        if isinstance(a, ast.Assign) and compact(a.targets[0]) == n_.id:
                            names |= set(M.call_name(c) for c in M.calls(a.value))
        if 'SummationDensity' in names:
            sd_groups.append((gcall, kw, names))
    partial = []
    for gcall in groups:
        for k in gcall.keywords:
            if k.arg in ('condition', 'start_idx', 'stop_idx', 'iterate', 'max_iterations', 'min_iterations'):
                partial.append('%s=%s' % (k.arg, compact(k.value)))
    chk.decide(not partial, 'order1-linear-reproduction', 'every-group-runs-in-every-evaluation', node=groups[0] if groups else cae, file=INT, func='_compile_acceleration_eval',
               detail_bad='a group of the interpolation evaluator is built with %s: densities / moments / sums are then not recomputed over all particles in every interpolate() call, '
                          'although masses, densities and properties of the sources may have changed in place' % partial, detail_ok='no group is conditional, iterated or restricted to an index range')
    ok = bool(sd_groups) and all(isinstance(kw.get('real'), ast.Constant) and kw['real'].value is False and
                                 not (names & set(['SPHFirstOrderApproximationPreStep', 'SPHFirstOrderApproximation'])) for g_, kw, names in sd_groups)
    chk.decide(ok, 'order1-linear-reproduction', 'densities-cover-ghosts', node=sd_groups[0][0] if sd_groups else cae, file=INT, func='_compile_acceleration_eval',
               detail_bad='SummationDensity of the sources must run in its own Group(real=False): in a real-only group the density of periodic images stays 0 and every target near the '
                          'boundary divides by it (NaN)', detail_ok='Group([SummationDensity ...], real=False) of its own')
    # SPHEvaluator: what the neighbour structure is built from is fixed at construction
    st = M.py(SEV)
    ecls = M.find_class(st, 'SPHEvaluator')
    cn = M.find_func(ecls, '_create_nnps')
    used = set(compact(n_) for n_ in ast.walk(cn) if isinstance(n_, ast.Attribute) and compact(n_).startswith('self.') and isinstance(n_.ctx, ast.Load) and
               compact(n_).count('.') == 1) - set(['self.func_eval', 'self.nnps'])
    bad = []
    for m_ in [f for f in ecls.body if isinstance(f, ast.FunctionDef) and f.name not in ('__init__',)]:
        for a in ast.walk(m_):
            if isinstance(a, ast.Assign):
                for tg in a.targets:
                    if compact(tg) in used:
                        bad.append((m_.name, compact(tg), a.lineno))
    chk.decide(not bad and 'self.domain_manager' in used, 'rebinding', 'SPHEvaluator:nnps-inputs-fixed-at-construction', node=cn, file=SEV, func='SPHEvaluator._create_nnps',
               detail_bad='%s re-assign what _create_nnps builds the neighbour structure from (%s): a later update_particle_arrays() silently rebuilds it without the periodic domain / '
                          'kernel it was constructed with' % (sorted(set(b[0] for b in bad)), sorted(set(b[1] for b in bad))), detail_ok='only __init__ sets %s' % sorted(used))


def resolve_names(fn, e):
    """local int names (i16 = 16*d_idx) substituted in an expression"""
    defs = dict((compact(a.targets[0]), a.value) for a in ast.walk(fn) if isinstance(a, ast.Assign) and isinstance(a.targets[0], ast.Name) and
                isinstance(a.value, ast.BinOp))

    class Sub(ast.NodeTransformer):
        def visit_Name(self, n):
            return defs[n.id] if n.id in defs and n.id not in ('i', 'n') else n
    import copy
    return Sub().visit(copy.deepcopy(e))


def from_env_index(idx, env, n):
    """offset of `stride*d_idx + f(loop vars)` within the particle's block, for given loop values"""
    import copy

    class Sub(ast.NodeTransformer):
        def visit_Name(self, x):
            if x.id in env:
                return ast.Constant(env[x.id])
            if x.id == 'd_idx':
                return ast.Constant(0)
            raise ValueError(x.id)
    e = Sub().visit(copy.deepcopy(idx))
    v = eval(compile(ast.fix_missing_locations(ast.Expression(e)), '<idx>', 'eval'), {'__builtins__': {}}, {})
    return v if 0 <= v < n else None


def main(chk):
    chk.explanation = ('Normalised methods: symbolic (polynomial normal form with reciprocal atoms) agreement between the weight multiplying the source '
                       'value and the increment of the normaliser, division under a positivity guard, zero initialisation; un-normalised sums match the '
                       'volume-weighted form; every default equation takes all arrays as sources; method table agreement across the three dispatch sites; '
                       'rebinding of arrays re-creates the neighbour structure and the evaluator binding (dominance / must-pass), the property is staged '
                       'in every array before evaluation.')
    # equation hooks in a normal form: single-assignment scalar locals (`i4 = 4*d_idx`, `nd = d_number_density[d_idx]`) written out where they are used
    tree = M.single_locals_inlined(M.py(INT), only_in=('initialize', 'loop', 'post_loop', 'loop_all', 'initialize_pair'))
    rule_normalised(chk, tree)
    rule_sources(chk, tree)
    rule_method_table(chk, tree)
    chk.floor("model runs of _create_particle_array", rule_target_model(chk, tree), 30)
    rule_rebinding(chk, tree)
    rule_grid_dimensions(chk, tree)
    rule_every_neighbour_contributes(chk, tree)
    # the evaluator the interpolator runs on (anchored file acceleration_eval.py): each equation's initialise / post-loop code once per destination however many sources it has
    # (a normalising post_loop applied once per source divides twice), and the destination loop bounds are the array's current size (rules shared with C03)
    import importlib.util
    spec3 = importlib.util.spec_from_file_location('c03mod', os.path.join(os.path.dirname(os.path.abspath(__file__)), 'c03.py'))
    c03 = importlib.util.module_from_spec(spec3)
    spec3.loader.exec_module(c03)
    c03.rule_regroup(chk)
    c03.rule_wrapper(chk, c03.MT.parse_template(c03.TPL))
    rule_order1(chk, tree)
    rule_targets_and_groups(chk, tree)
    rule_own_evaluator(chk, tree)
    chk.note("'splash' weights with WI (destination h) while 'splash_norm' uses WJ (source h); no formula is documented in the repository to compare with - noted, not judged")
    chk.assume("'order1': the per-pair identity gives M (p_i, grad p) = b exactly for linear fields; that the (dim+1) leading block is well conditioned, and XIJ[k] = 0 for k >= dim, are assumed; "
               "min/max bounds of Shepard values are numeric facts, not decided")


if __name__ == '__main__':
    run_check('C14', main)
