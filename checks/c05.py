"""C05 - results independent of NNPS algorithm, cache, threads, reordering (static rules, DESIGN.md C05)."""
import ast
import glob
import os
import re
import sys

sys.path.insert(0, os.path.dirname(os.path.dirname(os.path.abspath(__file__))))
from verif_static.core import run_check, AnalysisError, REPO  # noqa
from verif_static import model as M, cfg as C, eqindex as E, makotree as MT  # noqa

APP = 'pysph/solver/application.py'
SOL = 'pysph/solver/solver.py'
NB = 'pysph/base/nnps_base.pyx'
GPU_ONLY = {'gpu_octree'}
# what every constructor call must be given, with the locals of _configure_solver substituted (<kernel> = the local that holds solver.kernel)
COMMON_KW = {'dim': 'self.solver.dim', 'particles': 'self.particles', 'radius_scale': '<kernel>.radius_scale', 'domain': 'self.domain',
             'cache': 'self.options.cache_nnps', 'sort_gids': 'self.options.sort_gids'}


def U(n):
    return M.unparse(n)


def compact(n):
    return U(n).replace(' ', '')


def nnps_classes():
    """name -> (rel, ClassDef) for every CPU NNPS class"""
    rels = [os.path.relpath(p, REPO) for p in sorted(glob.glob(os.path.join(REPO, 'pysph/base/*_nnps.pyx'))) if 'gpu' not in p]
    rels.append(NB)
    ci = M.ClassIndex(rels)
    out = {}
    for rel in rels:
        for c in M.classes(ci.trees[rel]):
            out[c.name] = (rel, c)
    return ci, out


def ctor_params(ci, rel, cls):
    """parameters accepted by __init__ (resolved through the bases)"""
    got = ci.lookup_method(rel, cls, '__init__')
    if got is None:
        return None
    return [a for a in M.arg_names(got[2]) if a != 'self']


def rule_options(chk, ci, classes):
    app = M.py(APP)
    acls = M.find_class(app, 'Application')
    # choices of --nnps
    choices = None
    for c in M.calls(acls):
        if isinstance(c.func, ast.Attribute) and c.func.attr == 'add_argument' and c.args and M.const_str(c.args[0]) == '--nnps':
            for k in c.keywords:
                if k.arg == 'choices':
                    choices = [M.const_str(e) for e in k.value.elts]
    if not choices:
        raise AnalysisError('--nnps option vanished')
    cs = M.find_func(acls, '_configure_solver')
    from verif_static import norm as N2
    ldefs = N2.local_defs([cs])

    def inl(e):
        return compact(N2.inline(e, ldefs))
    kernel_names = sorted(set(a.targets[0].id for a in ast.walk(cs) if isinstance(a, ast.Assign) and isinstance(a.targets[0], ast.Name) and inl(a.value) == 'self.solver.kernel'))
    branches = {}
    for i in ast.walk(cs):
        if isinstance(i, ast.If) and isinstance(i.test, ast.Compare) and inl(i.test.left) == 'self.options.nnps' and \
                isinstance(i.test.ops[0], ast.Eq) and M.const_str(i.test.comparators[0]):
            nm = M.const_str(i.test.comparators[0])
            ctor = [c for b in i.body for c in M.calls(b) if (M.call_name(c) or '').endswith('NNPS')]
            branches[nm] = (i, ctor[0] if ctor else None)
    handled = set(branches)
    for ch in sorted(choices):
        chk.decide(ch in handled or ch in GPU_ONLY, 'nnps-option-exhaustive', ch, node=cs, file=APP, func='Application._configure_solver',
                   detail_bad='--nnps %s is offered but no branch constructs an NNPS for it' % ch, detail_ok='handled')
    for h in sorted(handled - set(choices)):
        chk.violated('nnps-option-exhaustive', 'unreachable:' + h, node=branches[h][0], file=APP, func='Application._configure_solver',
                     detail='branch for %r can never be selected (not among the choices)' % h)
    chk.floor('--nnps choices', len(choices), 10)
    # constructor agreement
    cpu_ctors = [c_ for n_, (x_, c_) in branches.items() if n_ not in GPU_ONLY and c_ is not None]
    # a keyword that several algorithms take and that every one of them is given alike
    by_kw = {}
    for c_ in cpu_ctors:
        for k in c_.keywords:
            by_kw.setdefault(k.arg, []).append(inl(k.value))
    shared_kw = set((k_, v_[0]) for k_, v_ in by_kw.items() if len(v_) >= 3 and len(set(v_)) == 1)
    for nm, (node, ctor) in sorted(branches.items()):
        if nm in GPU_ONLY or ctor is None:
            continue
        cname = M.call_name(ctor).split('.')[-1]
        if cname not in classes:
            chk.undecided('nnps-constructor-agreement', nm, node=ctor, file=APP, func='Application._configure_solver',
                          detail='class %s not found among the CPU NNPS sources' % cname)
            continue
        rel, cls = classes[cname]
        params = ctor_params(ci, rel, cls)
        kws = dict((k.arg, inl(k.value)) for k in ctor.keywords)
        for k, want in sorted(COMMON_KW.items()):
            wants = [want.replace('<kernel>', kn) for kn in kernel_names + ['self.solver.kernel']]
            want = wants[0]
            chk.decide(kws.get(k) in wants, 'nnps-constructor-agreement', '%s:%s' % (nm, k), node=ctor, file=APP, func='Application._configure_solver',
                       detail_bad='%s(%s=%s): every algorithm must receive %s=%s, otherwise runs differ by algorithm' % (cname, k, kws.get(k), k, want),
                       detail_ok='%s=%s' % (k, want))
        # the algorithm's own knobs (H, table sizes, levels, the approximate mask ...) are the user's options as given: nothing else of the run (a fixed h, the dimension ...)
        # switches a search to a different accuracy behind the user's back
        import re as _re
        for k, v in sorted(kws.items()):
            if k in COMMON_KW or (k, v) in shared_kw:
                continue            # (what every algorithm is given alike - fixed_h - cannot make them differ)
            plain = bool(_re.match(r'^self\.options\.\w+$', v or '')) or v in ('True', 'False', 'None') or bool(_re.match(r'^[0-9.]+$', v or ''))
            chk.decide(plain, 'nnps-constructor-agreement', '%s:%s-as-given' % (nm, k), node=ctor, file=APP, func='Application._configure_solver',
                       detail_bad='%s(%s=%s): the knob is not the plain command-line option - another setting of the run changes which neighbours this algorithm finds while the other '
                                  'algorithms are unaffected, so results depend on --nnps' % (cname, k, v), detail_ok='%s=%s' % (k, v))
        unknown = [k for k in kws if params is not None and k not in params]
        chk.decide(not unknown and not ctor.args, 'nnps-constructor-agreement', '%s:accepted-keywords' % nm, node=ctor, file=APP,
                   func='Application._configure_solver',
                   detail_bad='%s.__init__%s does not accept %s' % (cname, tuple(params or ()), unknown), detail_ok='all keywords accepted by %s.__init__' % cname)
    # cache option
    g = C.build_cfg(cs)
    return [M.call_name(c).split('.')[-1] for nm, (n_, c) in branches.items() if nm not in GPU_ONLY and c is not None]


def rule_sorting(chk, ci, classes, selectable):
    """every selectable algorithm stores the flag and sorts the neighbours it appended, by the gids of the SOURCE array"""
    n = 0
    for cname in sorted(set(selectable)):
        rel, cls = classes[cname]
        # flag stored by some constructor in the MRO
        stored = False
        for r, c in ci.mro(rel, cls):
            init = M.methods(c).get('__init__')
            if init is not None and any(isinstance(a, ast.Assign) and compact(a.targets[0]) == 'self.sort_gids' and compact(a.value) == 'sort_gids'
                                        for a in ast.walk(init)):
                stored = True
        chk.decide(stored, 'sorting-honoured', cname + ':flag-stored', node=cls, file=rel, func=cname + '.__init__',
                   detail_bad='no constructor of %s stores sort_gids: --sort-gids is silently ignored for this algorithm' % cname,
                   detail_ok='self.sort_gids = sort_gids')
        got = ci.lookup_method(rel, cls, 'find_nearest_neighbors')
        if got is None or got[1].name in ('NNPS', 'NNPSBase'):
            chk.violated('sorting-honoured', cname + ':query', node=cls, file=rel, func=cname, detail='no find_nearest_neighbors implementation')
            continue
        r2, c2, fn = got
        n += 1
        g = C.build_cfg(fn)
        sorts = [x for x in M.calls(fn) if M.call_name(x) == 'self._sort_neighbors']
        if len(sorts) != 1:
            chk.violated('sorting-honoured', cname + ':sort-call', node=fn, file=r2, func='%s.find_nearest_neighbors' % c2.name,
                         detail='%d calls of _sort_neighbors (expected one, after all appends)' % len(sorts))
            continue
        sc = sorts[0]
        gi = M.enclosing(sc, (ast.If,))
        chk.decide(gi is not None and compact(gi.test) == 'self.sort_gids' and M.enclosing(gi, (ast.For, ast.While, ast.If)) is None,
                   'sorting-honoured', cname + ':guard', node=sc, file=r2, func='%s.find_nearest_neighbors' % c2.name,
                   detail_bad='sorting is not exactly under `if self.sort_gids` at the end of the query', detail_ok='if self.sort_gids')
        # all appends precede the sort
        sn = g.node_of(gi) if gi is not None else None
        apps = [x.id for x in g.nodes if x.ast is not None and isinstance(x.ast, ast.Expr) and
                (M.call_name(x.ast.value) or '').split('.')[-1] in ('c_append', 'append')]
        ok = sn is not None and all(sn not in g.reachable(g.entry, avoid=[a]) or True for a in apps) and \
            all(a not in g.reachable(sn) for a in apps)
        chk.decide(ok, 'sorting-honoured', cname + ':after-all-appends', node=sc, file=r2, func='%s.find_nearest_neighbors' % c2.name,
                   detail_bad='neighbours are appended after the sort', detail_ok='no append is reachable after the sort')
        # arguments: &nbrs.data[orig], nbrs.length - orig, gids of the source
        a0, a1, a2 = (list(sc.args) + [None, None, None])[:3]
        orig = None
        m = re.match(r'^__addr__\(nbrs\.data\[(\w+)\]\)$', compact(a0)) if a0 is not None else None
        if m:
            orig = m.group(1)
        odef = [a for a in ast.walk(fn) if isinstance(a, (ast.Assign, ast.AnnAssign)) and orig and a.value is not None and
                compact(a.targets[0] if isinstance(a, ast.Assign) else a.target) == orig]
        ok = orig is not None and bool(odef) and compact(odef[0].value) == 'nbrs.length' and a1 is not None and compact(a1) == 'nbrs.length-%s' % orig
        if ok:
            on = g.node_of(odef[0])
            ok = all(on not in g.reachable(a) for a in apps)
        chk.decide(ok, 'sorting-honoured', cname + ':sorts-what-it-appended', node=sc, file=r2, func='%s.find_nearest_neighbors' % c2.name,
                   detail_bad='sorted range is (%s, %s): not exactly the neighbours appended by this query' % (U(a0) if a0 else None, U(a1) if a1 else None),
                   detail_ok='&nbrs.data[%s], nbrs.length - %s' % (orig, orig))
        gv = compact(a2) if a2 is not None else ''
        gdef = [a for a in ast.walk(fn) if isinstance(a, (ast.AnnAssign, ast.Assign)) and
                compact(a.target if isinstance(a, ast.AnnAssign) else a.targets[0]) == gv and a.value is not None]
        src_ok = (bool(gdef) and compact(gdef[0].value) in ('self.src.gid.data',)) or gv == 'self.src.gid.data'
        chk.decide(src_ok, 'sorting-honoured', cname + ':source-gids', node=sc, file=r2, func='%s.find_nearest_neighbors' % c2.name,
                   detail_bad='neighbours (source indices) are ordered by %s = %s, not by the gids of the source array' % (gv, compact(gdef[0].value) if gdef else '?'),
                   detail_ok='gids of self.src')
    chk.floor('selectable find_nearest_neighbors', n, 10)
    # the sorter itself: total order by (gid) or by id when gids are invalid
    t = M.cy(NB)
    sn = M.find_method(t, 'NNPS', '_sort_neighbors')
    M.set_parents(sn)
    params = [a.arg for a in sn.args.args]
    ok = len(params) >= 4
    why = ''
    if ok:
        arr, length, gids = params[1], params[2], params[3]
        sorts = [c for c in M.calls(sn) if M.call_name(c) == 'sort']
        ok = len(sorts) == 2
        seen_cmp = 0
        for c in sorts:
            a = [compact(x) for x in c.args]
            cont = a[0][:-len('.begin()')] if a and a[0].endswith('.begin()') else None
            full = cont is not None and len(a) >= 2 and a[1] == cont + '.end()'
            host = M.enclosing(c, (ast.If,))
            stmts = (host.body if any(c is x for b in host.body for x in ast.walk(b)) else host.orelse) if host is not None else sn.body
            before = [l for l in stmts if isinstance(l, ast.For) and l.lineno < c.lineno]
            after = [l for l in stmts if isinstance(l, ast.For) and l.lineno > c.lineno]
            fill = any(compact(l.iter) == 'range(%s)' % length and any(isinstance(x, ast.Assign) and compact(x.targets[0]) == '%s[%s]' % (cont, compact(l.target)) for x in ast.walk(l)) and
                       any(isinstance(x, ast.Subscript) and compact(x) == '%s[%s]' % (arr, compact(l.target)) and isinstance(x.ctx, ast.Load) for x in ast.walk(l)) for l in before)
            back = any(compact(l.iter) == 'range(%s)' % length and any(isinstance(x, ast.Assign) and compact(x.targets[0]) == '%s[%s]' % (arr, compact(l.target)) and
                                                                       compact(x.value) in ('%s[%s]' % (cont, compact(l.target)), '%s[%s].first' % (cont, compact(l.target)))
                                                                       for x in ast.walk(l)) for l in after)
            bygid = True
            if len(a) == 3:
                seen_cmp += 1
                # the key of an entry is the gid of the id it carries: X.second = gids[<the id read from nbrs[i]>]
                ids = set(compact(x.targets[0]) for l in before for x in ast.walk(l) if isinstance(x, ast.Assign) and compact(x.value) == '%s[%s]' % (arr, compact(l.target)))
                bygid = any(isinstance(x, ast.Assign) and compact(x.targets[0]).endswith('.second') and
                            (compact(x.value) in ['%s[%s]' % (gids, i) for i in ids] or compact(x.value) == '%s[%s[%s]]' % (gids, arr, compact(l.target)))
                            for l in before for x in ast.walk(l))
            if not (full and fill and back and bygid):
                ok = False
                why = 'sort(%s): whole container %s, filled from %s[0:%s] %s, written back %s, keyed by the gid of the id %s' % (', '.join(a), full, arr, length, fill, back, bygid)
        ok = ok and seen_cmp == 1
    chk.decide(ok, 'sorting-honoured', 'sorter', node=sn, file=NB, func='NNPS._sort_neighbors',
               detail_bad='the sorter no longer orders all `length` entries by gid (or by id when gids are unset) and writes them back: ' + why,
               detail_ok='both branches: copy all entries, sort the whole container, write all back; pairs keyed by the gid of the id')


def classify_index(fn, e, seen=None):
    seen = seen or set()
    names = set(x.id for x in ast.walk(e) if isinstance(x, ast.Name))
    out = set()
    if 'd_idx' in names:
        out.add('ROW')
    if 's_idx' in names:
        out.add('SRC')
    for n in names - {'d_idx', 's_idx'}:
        if n in seen:
            continue
        for a in ast.walk(fn):
            if isinstance(a, (ast.Assign, ast.AugAssign)):
                tg = a.targets if isinstance(a, ast.Assign) else [a.target]
                if any(isinstance(t, ast.Name) and t.id == n for t in tg) or \
                        any(isinstance(t, ast.Tuple) and any(isinstance(x, ast.Name) and x.id == n for x in t.elts) for t in tg):
                    out |= classify_index(fn, a.value, seen | {n})
            if isinstance(a, ast.For) and isinstance(a.target, ast.Name) and a.target.id == n:
                out |= classify_index(fn, a.iter, seen | {n})
    return out


def single_executor(node):
    p = getattr(node, 'parent', None)
    while p is not None:
        if isinstance(p, ast.If) and isinstance(p.test, ast.Compare) and len(p.test.ops) == 1 and isinstance(p.test.ops[0], ast.Eq) \
                and compact(p.test.left) == 'd_idx' and isinstance(p.test.comparators[0], ast.Constant) \
                and any(node is x for b in p.body for x in ast.walk(b)):
            return True
        p = getattr(p, 'parent', None)
    return False


def rule_own_row(chk):
    """each destination index is processed by one thread and writes only its own row"""
    n = 0
    units = []
    for kind, items, meths in (('equation', E.equations(), lambda c: E.hook_methods(c, E.PAR_HOOKS)),
                               ('stepper', E.steppers(), E.stage_methods)):
        for rel, cls in items:
            for name, fn in meths(cls):
                n += 1
                params = set(M.arg_names(fn))
                for a in ast.walk(fn):
                    tg = a.targets if isinstance(a, ast.Assign) else [a.target] if isinstance(a, ast.AugAssign) else []
                    for t in tg:
                        if not (isinstance(t, ast.Subscript) and isinstance(t.value, ast.Name) and t.value.id in params
                                and t.value.id.startswith(('d_', 's_'))):
                            continue
                        arr = t.value.id
                        c = classify_index(fn, t.slice)
                        inst = '%s.%s:%s[%s]' % (cls.name, name, arr, compact(t.slice))
                        where = dict(node=a, file=rel, func='%s.%s' % (cls.name, name), key='own-row-writes:%s:%s' % (rel, inst))
                        if arr.startswith('s_'):
                            chk.violated('own-row-writes', inst, detail='store into SOURCE array %s inside the parallel destination loop: several threads '
                                         '(every destination that has this neighbour) update the same element - the result depends on the thread '
                                         'schedule' % arr, **where)
                        elif c == {'ROW'}:
                            pass
                        elif not c and single_executor(a):
                            pass     # `if d_idx == 0:` - exactly one destination index (one thread) performs the store
                        elif not c:
                            chk.violated('own-row-writes', inst, detail='store to the fixed element %s[%s] from every destination index: concurrent '
                                         'threads race on it' % (arr, U(t.slice)), **where)
                        else:
                            chk.violated('own-row-writes', inst, detail='destination array %s is written at an index derived from %s, not the thread\'s own d_idx row'
                                         % (arr, sorted(c)), **where)
    chk.holds('own-row-writes', 'all-other-stores', file='pysph/sph', func='*', detail='%d hook/stage methods scanned; every other store goes to d_*[row(d_idx)]' % n)
    chk.floor('parallel hook and stage methods', n, 500)


def rule_reorder(chk):
    sol = M.py(SOL)
    solve = M.find_method(sol, 'Solver', 'solve')
    # decided per path through one iteration of the time loop (private helpers inlined, locals substituted): the particles are re-ordered exactly when the frequency is
    # positive and the iteration count is a multiple of it; and once before the loop when the frequency is positive
    from verif_static import norm as N, paths as PT
    scls = M.find_class(sol, 'Solver')
    icls = M.inlined_class(scls, keep=set(n_ for n_ in M.methods(scls) if not n_.startswith('_')) |
                           set(['_get_timestep', '_dump_output_if_needed', '_compute_timestep', '_damp_timestep', '_get_solver_data', '_get_undamped_timestep', '_post_stage_callback']))
    solve = M.find_func(icls, 'solve')
    loops_ = [l for l in solve.body if isinstance(l, ast.While)]
    ld_ = N.local_defs(solve.body)
    F = 'self.reorder_freq'

    cache_ = {}

    def formula(x):
        """the test as a boolean formula over P (frequency > 0) and D (count a multiple of it); None for anything else"""
        key = ast.dump(x)
        if key in cache_:
            return cache_[key]
        r = None
        if isinstance(x, ast.BoolOp):
            r = ('and' if isinstance(x.op, ast.And) else 'or', [formula(v) for v in x.values])
        elif isinstance(x, ast.UnaryOp) and isinstance(x.op, ast.Not):
            r = ('not', [formula(x.operand)])
        else:
            y = N.inline(x, ld_)
            for nm_, pos, neg in (('P', F + ' > 0', F + ' <= 0'), ('D', 'self.count %% %s == 0' % F, 'self.count %% %s != 0' % F)):
                if N.same(y, pos):
                    r = ('atom', nm_, True)
                elif N.same(y, neg):
                    r = ('atom', nm_, False)
        cache_[key] = r
        return r

    def val(f, env):
        if f is None:
            return None
        if f[0] == 'atom':
            return env[f[1]] == f[2]
        vs = [val(g_, env) for g_ in f[1]]
        if f[0] == 'not':
            return None if vs[0] is None else not vs[0]
        if f[0] == 'and':
            return False if any(v is False for v in vs) else (None if any(v is None for v in vs) else True)
        return True if any(v is True for v in vs) else (None if any(v is None for v in vs) else False)

    pcache_ = {}

    def possible(p_, env):
        """can the path be taken when P and D have these values (tests on anything else are open)"""
        fl = pcache_.get(id(p_))
        if fl is None:
            fl = []
            for e in p_:
                if e.kind == 'cond' and 'reorder' in ast.unparse(PT.resolve(e.node, e.env)):
                    f_ = formula(PT.resolve(e.node, e.env))
                    if f_ is not None:
                        fl.append((f_, e.truth))
            pcache_[id(p_)] = fl
        return all(val(f_, env) in (None, tr_) for f_, tr_ in fl)
    bad, ncall, nskip = None, 0, 0
    keep_alive = PT.enumerate_paths(list(loops_[0].body)) if loops_ else []          # (the formula cache is keyed by object identity)
    for p_ in keep_alive:
        called = any(cal == 'self.reorder_particles' for i, c, cal, env in PT.calls_on(p_))
        if called:
            ncall += 1
            for P_, D_ in ((True, False), (False, True), (False, False)):
                if possible(p_, {'P': P_, 'D': D_}):
                    bad = bad or 'a path re-orders although frequency > 0 is %s / the count is a multiple of it is %s' % (P_, D_)
        else:
            nskip += 1
            if possible(p_, {'P': True, 'D': True}):
                bad = bad or 'a path does not re-order although the frequency is positive and the count a multiple of it'
    pre_ok = False
    if loops_:
        pre = solve.body[:solve.body.index(loops_[0])]
        keep_alive2 = PT.enumerate_paths(pre)
        for p_ in keep_alive2:
            called = any(cal == 'self.reorder_particles' for i, c, cal, env in PT.calls_on(p_))
            if called and not possible(p_, {'P': False, 'D': True}) and not possible(p_, {'P': False, 'D': False}):
                pre_ok = True
            elif called:
                bad = bad or 'before the loop the particles are re-ordered whatever the frequency'
            elif possible(p_, {'P': True, 'D': True}) and possible(p_, {'P': True, 'D': False}):
                bad = bad or 'before the loop the particles are not re-ordered although the frequency is positive'
    chk.decide(bad is None and ncall > 0 and nskip > 0 and pre_ok, 'reordering', 'schedule',
               node=solve, file=SOL, func='Solver.solve', detail_bad='re-ordering schedule: %s' % (bad or 'no path re-orders / skips'), detail_ok='once at start and every reorder_freq iterations')
    rp = M.find_method(sol, 'Solver', 'reorder_particles')
    from verif_static import paths as PT
    rpaths = PT.enumerate_paths(M.docstring_stripped(rp.body))
    okr = False
    badr = None
    for p_ in rpaths:
        cl = PT.calls_on(p_)
        perm = [i for i, c, cal, env in cl if cal == 'self.nnps.spatially_order_particles']
        upd = [i for i, c, cal, env in cl if cal == 'self.nnps.update']
        if perm:
            okr = True
            if not [i for i in upd if i > max(perm)]:
                badr = badr or p_
    chk.decide(okr and badr is None, 'reordering', 'neighbours-rebuilt-after-permutation', node=rp, file=SOL,
               func='Solver.reorder_particles',
               detail_bad='after the particles are permuted the neighbour structures are not rebuilt: an evaluation that does not refresh them '
                          '(update_nnps=False, initial_acceleration) uses pre-permutation indices', detail_ok='self.nnps.update() after the permutation loop')
    # one index list applied to every property of the array with that property's stride: decided by the model run of NNPS.spatially_order_particles (rule shared with C17)
    import importlib.util
    spec17 = importlib.util.spec_from_file_location('c17mod', os.path.join(os.path.dirname(os.path.abspath(__file__)), 'c17.py'))
    c17 = importlib.util.module_from_spec(spec17)
    spec17.loader.exec_module(c17)
    c17.rule_apply(chk)


def main(chk):
    chk.explanation = ('Option exhaustiveness of --nnps against the constructor chain; every CPU branch passes the same dim/particles/radius_scale/'
                       'domain/cache/sort_gids and only keywords its class accepts; every selectable algorithm stores sort_gids and sorts exactly '
                       'the neighbours it appended by the gids of the source array; write-effect analysis of all shipped equation hooks and '
                       'stepper stages that run inside the parallel destination loop (stores must go to d_*[row(d_idx)]); re-ordering schedule.')
    ci, classes = nnps_classes()
    selectable = rule_options(chk, ci, classes)
    rule_sorting(chk, ci, classes, selectable)
    rule_own_row(chk)
    rule_reorder(chk)
    # with or without the neighbour cache: the cache must be invalidated completely on every update (rule shared with C01)
    import importlib.util
    spec = importlib.util.spec_from_file_location('c01mod', os.path.join(os.path.dirname(os.path.abspath(__file__)), 'c01.py'))
    c01 = importlib.util.module_from_spec(spec)
    spec.loader.exec_module(c01)
    c01.rule_cache(chk)
    # every algorithm sees the same particles and the same cells: all particles are binned, and an out-of-range cell index is never aliased (rules shared with C01)
    c01.rule_bins_all(chk)
    c01.rule_valid_cell(chk)
    # the order in which a destination's sources are visited (= the floating-point summation order) depends on the user's listing only (rule shared with C03)
    spec3 = importlib.util.spec_from_file_location('c03mod', os.path.join(os.path.dirname(os.path.abspath(__file__)), 'c03.py'))
    c03 = importlib.util.module_from_spec(spec3)
    spec3.loader.exec_module(c03)
    c03.rule_regroup(chk)
    # a group that asks for a neighbour update gets the same refresh (domain, then binning) whichever way it is nested (rule shared with C03)
    from verif_static import makotree as MT3
    c03.rule_top(chk, MT3.parse_template(c03.TPL))
    # the binning cell size covers every array, re-read at every update (rule shared with C01)
    c01.rule_cell_size(chk)
    # tree searches prune with the same bound the other algorithms' stencils guarantee (rule shared with C01)
    c01.rule_octree(chk)
    c01.rule_level_stencil(chk)
    c01.rule_subcell_radius(chk)
    c01.rule_cell_counts(chk)
    # no particle sits on the outer face of the binning box (cell index = number of cells: found by some algorithms, folded into the next row by others)
    c01.rule_bounds(chk)
    # ... and the look-up tables are built from the particles of this update alone (rule shared with C01 / C17)
    c01.rule_tables_emptied(chk)
    # the hash tables behind sh / esh / strat_hash keep and find every occupied cell (rule shared with C01)
    c01.rule_cxx_headers(chk)
    # every algorithm finds the same cells as the others: cell ids keep their width from binning to look-up, and a query decodes the source array with the source array's layout
    c01.rule_narrowing(chk)
    c01.rule_query_array_index(chk)
    c01.rule_every_level_searched(chk)
    # x, y, z and h of one particle are read with one index (tree builders, serial and parallel: the maximum h of a node decides which nodes a query prunes)
    c01.rule_coindexed(chk)
    # whether the neighbours are refreshed before an evaluation is decided by the integrator's request alone (rule shared with C04)
    spec4 = importlib.util.spec_from_file_location('c04mod', os.path.join(os.path.dirname(os.path.abspath(__file__)), 'c04.py'))
    c04 = importlib.util.module_from_spec(spec4)
    spec4.loader.exec_module(c04)
    c04.rule_forwards(chk)
    # threads never share scratch storage: per-thread slices of the pair vectors are disjoint (rule shared with C02)
    spec2 = importlib.util.spec_from_file_location('c02mod', os.path.join(os.path.dirname(os.path.abspath(__file__)), 'c02.py'))
    c02 = importlib.util.module_from_spec(spec2)
    spec2.loader.exec_module(c02)
    c02.rule_scratch(chk)
    # informational: classes not selectable from the command line
    for cname, (rel, cls) in sorted(classes.items()):
        if cname in selectable or cname in ('NNPS', 'NNPSBase') or not cname.endswith('NNPS'):
            continue
        init = M.methods(cls).get('__init__')
        if init is not None and 'sort_gids' in M.arg_names(init) and not any(
                isinstance(a, ast.Assign) and compact(a.targets[0]) == 'self.sort_gids' for r, c in ci.mro(rel, cls)
                for a in ast.walk(M.methods(c).get('__init__') or ast.Module(body=[], type_ignores=[]))):
            chk.note('%s (not selectable through --nnps) accepts sort_gids but never stores it' % cname)
    chk.assume('bit-identity of floating-point sums and the behaviour of the OpenMP runtime are not decided')


if __name__ == '__main__':
    run_check('C05', main)
