#!/venv/bin/python
"""tools/mutant_leads.py <target>: development aid, NOT part of any check.

Generates first-order syntactic mutants of a small pure-Python numeric module of the repository (comparison flips, arithmetic operator swaps,
constants and index offsets nudged), classifies each one with a *dynamic* oracle (brute-force comparison against numpy on random inputs -
triage only) as breaking or equivalent, and runs the property's *static* quick check on a scratch copy holding the mutant.  Printed:
the breaking mutants the static check does not flag (leads for new necessary conditions) and the equivalent mutants it does flag
(leads for false alarms).  Nothing is written under /verif; scratch copies live under /tmp and are removed.

  tools/mutant_leads.py linalg        (pysph/sph/wc/linalg.py, check C13)
  tools/mutant_leads.py riemann       (pysph/sph/gas_dynamics/riemann_solver.py, check C15; the oracle tests the clauses of the property itself on sample states)
  tools/mutant_leads.py solver        (the stepping logic of pysph/solver/solver.py, check C10; the oracle compares run histories with the unmutated Solver on stub collaborators)
  tools/mutant_leads.py kernels       (pysph/base/kernels.py, check C08; the oracle compares with the unmutated module)
"""
import ast, copy, importlib.util, os, random, shutil, subprocess, sys, tempfile
import numpy as np

CLEAN = os.environ.get('MUT_SRC', '/repo')


def mutants(tree, funcs):
    """yield (description, mutated module tree)"""
    sites = []
    fdefs = [f for f in tree.body if isinstance(f, ast.FunctionDef) and (funcs is None or f.name in funcs)]
    for c in [c for c in tree.body if isinstance(c, ast.ClassDef)]:
        for f in c.body:
            if isinstance(f, ast.FunctionDef) and (funcs is None or f.name in funcs or c.name + '.' + f.name in funcs):
                f._owner = c.name
                fdefs.append(f)
    for fn in fdefs:
        for node in ast.walk(fn):
            if isinstance(node, ast.Compare) and len(node.ops) == 1:
                for new in (ast.Lt, ast.LtE, ast.Gt, ast.GtE, ast.Eq, ast.NotEq):
                    if not isinstance(node.ops[0], new) and isinstance(node.ops[0], (ast.Lt, ast.LtE, ast.Gt, ast.GtE, ast.Eq, ast.NotEq)):
                        sites.append((getattr(fn, '_owner', '') + '.' + fn.name, node, 'ops', [new()], '%s -> %s' % (type(node.ops[0]).__name__, new.__name__)))
            if isinstance(node, ast.BinOp) and isinstance(node.op, (ast.Add, ast.Sub, ast.Mult, ast.Div)):
                for new in (ast.Add, ast.Sub, ast.Mult, ast.Div):
                    if not isinstance(node.op, new):
                        sites.append((getattr(fn, '_owner', '') + '.' + fn.name, node, 'op', new(), '%s -> %s' % (type(node.op).__name__, new.__name__)))
            if isinstance(node, ast.Constant) and isinstance(node.value, (int, float)) and not isinstance(node.value, bool):
                for nv in (node.value + 1, node.value - 1, 0):
                    if nv != node.value:
                        sites.append((getattr(fn, '_owner', '') + '.' + fn.name, node, 'value', nv, 'const %r -> %r' % (node.value, nv)))
            if isinstance(node, ast.AugAssign):
                for new in (ast.Add, ast.Sub):
                    if not isinstance(node.op, new) and isinstance(node.op, (ast.Add, ast.Sub)):
                        sites.append((getattr(fn, '_owner', '') + '.' + fn.name, node, 'op', new(), 'aug %s -> %s' % (type(node.op).__name__, new.__name__)))
    for fname, node, field, val, what in sites:
        old = getattr(node, field)
        setattr(node, field, val)
        try:
            src = ast.unparse(tree)
        finally:
            setattr(node, field, old)
        yield '%s:%d %s' % (fname, getattr(node, 'lineno', 0), what), src


def load(path, name='mutmod'):
    spec = importlib.util.spec_from_file_location(name, path)
    m = importlib.util.module_from_spec(spec)
    spec.loader.exec_module(m)
    return m


def oracle_linalg(path):
    """True when gj_solve / augmented_matrix behave as numpy says on random systems (incl. permuted, singular, several right-hand sides)"""
    import signal

    def alarm(*a):
        raise TimeoutError()
    signal.signal(signal.SIGALRM, alarm)
    signal.alarm(20)
    try:
        m = load(path)
        rnd = random.Random(7)
        for trial in range(120):
            n = rnd.choice([1, 2, 3, 4])
            nb = rnd.choice([1, 2])
            A = np.array([[rnd.uniform(-2, 2) for _ in range(n)] for _ in range(n)])
            kind = trial % 4
            if kind == 1 and n > 1:
                A[0, 0] = 0.0
            if kind == 2 and n > 1:
                A = A[::-1].copy()
                A[0, 0] = 0.0
            singular = False
            if kind == 3 and n > 1:
                A[-1] = A[0] * 2.0
                singular = True
            B = np.array([[rnd.uniform(-2, 2) for _ in range(nb)] for _ in range(n)])
            aug = np.hstack([A, B]).ravel().tolist()
            res = [0.0] * (n * nb)
            rc = m.gj_solve(aug, n, nb, res)
            if singular:
                if not rc:
                    return False
                continue
            if abs(np.linalg.det(A)) < 1e-6:
                continue
            if rc:
                return False
            X = np.linalg.solve(A, B)
            got = np.array(res).reshape(n, nb)
            if not np.allclose(got, X, rtol=1e-8, atol=1e-9):
                return False
        # augmented_matrix and the products
        for trial in range(20):
            n = rnd.choice([2, 3])
            nmax = 3
            A = [rnd.uniform(-1, 1) for _ in range(nmax * nmax)]
            b = [rnd.uniform(-1, 1) for _ in range(nmax)]
            out = [0.0] * (n * (n + 1))
            m.augmented_matrix(A, b, n, 1, nmax, out)
            for i in range(n):
                for j in range(n):
                    if out[(n + 1) * i + j] != A[nmax * i + j]:
                        return False
                if out[(n + 1) * i + n] != b[i]:
                    return False
            a2 = [rnd.uniform(-1, 1) for _ in range(n * n)]
            b2 = [rnd.uniform(-1, 1) for _ in range(n * n)]
            r2 = [0.0] * (n * n)
            m.mat_mult(a2, b2, n, r2)
            if not np.allclose(np.array(r2).reshape(n, n), np.array(a2).reshape(n, n) @ np.array(b2).reshape(n, n)):
                return False
            v = [rnd.uniform(-1, 1) for _ in range(n)]
            r3 = [0.0] * n
            m.mat_vec_mult(a2, v, n, r3)
            if not np.allclose(r3, np.array(a2).reshape(n, n) @ np.array(v)):
                return False
            if abs(m.dot(v, v, n) - float(np.dot(v, v))) > 1e-12:
                return False
            idn = [5.0] * (n * n)
            m.identity(idn, n)
            if not np.allclose(np.array(idn).reshape(n, n), np.eye(n)):
                return False
        return True
    except TimeoutError:
        return False
    except Exception:
        return False
    finally:
        signal.alarm(0)


def oracle_kernels(path):
    """True when every kernel class of the (mutated) module computes what the same class of the unmutated module computes - value, dwdq, gradient, gradient_h, fac,
    radius_scale, get_deltap - on a grid of separations and smoothing lengths, in every dimension it supports"""
    import signal

    def alarm(*a):
        raise TimeoutError()
    signal.signal(signal.SIGALRM, alarm)
    signal.alarm(30)
    try:
        ref = load(os.path.join(CLEAN, 'pysph/base/kernels.py'), 'refkern')
        m = load(path, 'mutkern')
        for cname in ('CubicSpline', 'WendlandQuinticC2_1D', 'WendlandQuintic', 'WendlandQuinticC4_1D', 'WendlandQuinticC4', 'WendlandQuinticC6_1D', 'WendlandQuinticC6',
                      'Gaussian', 'SuperGaussian', 'QuinticSpline'):
            for dim in (1, 2, 3):
                try:
                    rk = getattr(ref, cname)(dim=dim)
                except Exception:
                    try:
                        getattr(m, cname)(dim=dim)
                        return False            # the mutant accepts a dimension the class does not support
                    except Exception:
                        continue
                try:
                    k = getattr(m, cname)(dim=dim)
                except Exception:
                    return False
                if abs(k.fac - rk.fac) > 1e-12 * abs(rk.fac) or k.radius_scale != rk.radius_scale or k.dim != rk.dim:
                    return False
                if abs(k.get_deltap() - rk.get_deltap()) > 1e-12:
                    return False
                for h in (0.7, 1.0, 2.5):
                    for q in (0.0, 1e-14, 0.05, 0.3, 0.5, 0.9, 1.0, 1.3, 1.7, 2.0, 2.4, 2.9, 3.0, 3.5):
                        rij = q * h
                        xij = [rij * 0.6, rij * 0.8, 0.0] if dim > 1 else [rij, 0.0, 0.0]
                        want = (rk.kernel(xij, rij, h), rk.dwdq(rij, h), rk.gradient_h(xij, rij, h))
                        g1, g2 = [0.0, 0.0, 0.0], [0.0, 0.0, 0.0]
                        rk.gradient(xij, rij, h, g2)
                        k.gradient(xij, rij, h, g1)
                        got = (k.kernel(xij, rij, h), k.dwdq(rij, h), k.gradient_h(xij, rij, h))
                        for a, b in list(zip(got, want)) + list(zip(g1, g2)):
                            if not (abs(a - b) <= 1e-12 * max(1.0, abs(b))):
                                return False
        return True
    except TimeoutError:
        return False
    except Exception:
        return False
    finally:
        signal.alarm(0)


def oracle_riemann(path):
    """True when every solver of the (mutated) module gives, through riemann_solve and for the same states, the status and the star state the unmutated module gives (random
    states, equal sides, strong shocks and rarefactions, near-vacuum, few and many iterations)"""
    import signal, io, contextlib

    def alarm(*a):
        raise TimeoutError()
    signal.signal(signal.SIGALRM, alarm)
    signal.alarm(40)
    try:
        ref = load(os.path.join(CLEAN, 'pysph/sph/gas_dynamics/riemann_solver.py'), 'refrs')
        m = load(path, 'mutrs')
        rnd = random.Random(11)
        states = []
        for k in range(140):
            rl, rr = 10 ** rnd.uniform(-1.5, 1.5), 10 ** rnd.uniform(-1.5, 1.5)
            pl, pr = 10 ** rnd.uniform(-1.5, 1.5), 10 ** rnd.uniform(-1.5, 1.5)
            ul, ur = rnd.uniform(-2, 2), rnd.uniform(-2, 2)
            states.append((rl, rr, pl, pr, ul, ur))
        states += [(1.0, 1.0, 1.0, 1.0, 0.3, 0.3), (1.0, 0.125, 1.0, 0.1, 0.0, 0.0), (1.0, 1.0, 0.4, 0.4, -2.0, 2.0), (1.0, 1.0, 1000.0, 0.01, 0.0, 0.0),
                   (1.0, 1.0, 1.0, 1.0, -10.0, 10.0), (2.0, 0.5, 3.0, 3.0, 1.0, -1.0), (1.0, 1.0, 1.0, 1.0, 0.0, 0.0)]
        with contextlib.redirect_stdout(io.StringIO()):
            for method in range(11):
                for st in states:
                    for gamma, niter, tol in ((1.4, 20, 1e-6), (5.0 / 3.0, 3, 1e-10), (1.4, 0, 1e-6)):
                        r1, r2 = [0.0, 0.0], [0.0, 0.0]
                        try:
                            c1 = ref.riemann_solve(method, st[0], st[1], st[2], st[3], st[4], st[5], gamma, niter, tol, r1)
                        except Exception:
                            continue
                        try:
                            c2 = m.riemann_solve(method, st[0], st[1], st[2], st[3], st[4], st[5], gamma, niter, tol, r2)
                        except Exception:
                            return False
                        if bool(c1) != bool(c2):
                            return False
                        if not c1:
                            for a, b in zip(r1, r2):
                                if not (abs(a - b) <= 1e-10 * max(1.0, abs(a))):
                                    return False
        return True
    except TimeoutError:
        return False
    except Exception:
        return False
    finally:
        signal.alarm(0)


def oracle_riemann_property(path):
    """True when the (mutated) solvers still have what property C15 states, on a sample of states: reflection symmetry and the common state for all eleven methods;
    for the iterative solvers (van Leer, exact) invariance under a velocity shift and scaling with a common factor on pressures and densities, a finite positive star
    pressure on success; failure of the exact solver for vacuum-generating data.  (Equivalence with the unmutated module is NOT required.)"""
    import signal, io, contextlib, math

    def alarm(*a):
        raise TimeoutError()
    signal.signal(signal.SIGALRM, alarm)
    signal.alarm(40)
    try:
        m = load(path, 'mutrs')
        rnd = random.Random(5)
        states = []
        for k in range(60):
            states.append((10 ** rnd.uniform(-1, 1), 10 ** rnd.uniform(-1, 1), 10 ** rnd.uniform(-1, 1), 10 ** rnd.uniform(-1, 1), rnd.uniform(-1, 1), rnd.uniform(-1, 1)))
        states += [(1.0, 0.125, 1.0, 0.1, 0.0, 0.0), (1.0, 1.0, 0.4, 0.4, -0.5, 0.5), (1.0, 1.0, 100.0, 0.01, 0.0, 0.0), (2.0, 0.5, 3.0, 3.0, 1.0, -1.0)]

        def solve(method, st, gamma=1.4, niter=40, tol=1e-10):
            r = [0.0, 0.0]
            c = m.riemann_solve(method, st[0], st[1], st[2], st[3], st[4], st[5], gamma, niter, tol, r)
            return bool(c), r[0], r[1]

        def close(a, b, rel=1e-7):
            return abs(a - b) <= rel * max(1.0, abs(a), abs(b))
        with contextlib.redirect_stdout(io.StringIO()):
            for method in range(11):
                for st in states:
                    f1, p1, u1 = solve(method, st)
                    mir = (st[1], st[0], st[3], st[2], -st[5], -st[4])
                    f2, p2, u2 = solve(method, mir)
                    if f1 != f2:
                        return False
                    if not f1 and not (close(p1, p2) and close(u1, -u2)):
                        return False
                    if method in (1, 2) and not f1:
                        if not (math.isfinite(p1) and p1 > 0):
                            return False
                        c0 = 0.75
                        f3, p3, u3 = solve(method, (st[0], st[1], st[2], st[3], st[4] + c0, st[5] + c0))
                        if f3 or not (close(p3, p1) and close(u3, u1 + c0)):
                            return False
                        k0 = 4.0
                        f4, p4, u4 = solve(method, (st[0] * k0, st[1] * k0, st[2] * k0, st[3] * k0, st[4], st[5]))
                        if f4 or not (close(p4, p1 * k0) and close(u4, u1)):
                            return False
                for rho, p_, u_ in ((1.0, 1.0, 0.3), (0.2, 5.0, -1.0)):
                    f5, p5, u5 = solve(method, (rho, rho, p_, p_, u_, u_))
                    if f5 or not (close(p5, p_) and close(u5, u_)):
                        return False
            # vacuum-generating data: the exact solver reports failure
            f6, p6, u6 = solve(2, (1.0, 1.0, 1.0, 1.0, -10.0, 10.0))
            if not f6:
                return False
        return True
    except TimeoutError:
        return False
    except Exception:
        return False
    finally:
        signal.alarm(0)


def _solver_trace(mod, cfg):
    """the observable history of one run of Solver.solve with stub collaborators: every integrator step (count, t, dt), every callback, every output (t, count, recorded dt)"""
    trace = []

    class Integ(object):
        def __init__(self):
            self.k = 0

        def initial_acceleration(self, t, dt):
            trace.append(('init', round(t, 12), round(dt, 12)))

        def step(self, t, dt):
            trace.append(('step', round(t, 12), round(dt, 12)))

        def compute_time_step(self, dt, cfl):
            self.k += 1
            seq = cfg['adapt']
            v = seq[self.k % len(seq)]
            return None if v is None else v * cfl

        def set_nnps(self, nnps):
            pass

        def set_post_stage_callback(self, cb):
            pass
    sv = mod.Solver(dim=1, integrator=Integ(), dt=cfg['dt'], tf=cfg['tf'], adaptive_timestep=cfg['adaptive'], pfreq=cfg['pfreq'], cfl=cfg['cfl'],
                    output_at_times=list(cfg['times']), n_damp=cfg['n_damp'], max_steps=cfg['max_steps'])
    sv.particles = []

    def dump():
        d = sv._get_solver_data()
        trace.append(('dump', round(sv.t, 12), sv.count, round(d['dt'], 12)))
    sv.dump_output = dump
    sv.barrier = lambda: None
    sv.update_particle_time = lambda: None
    sv.pre_step_callbacks.append(lambda s_: trace.append(('pre', round(s_.t, 12))))
    sv.post_step_callbacks.append(lambda s_: trace.append(('post', round(s_.t, 12))))
    sv.solve(show_progress=False)
    trace.append(('end', round(sv.t, 12), sv.count, round(sv.dt, 12)))
    return trace


def oracle_solver(path):
    """True when the (mutated) Solver produces, on a set of run configurations (fixed and adaptive steps, damping, output every n-th step and at requested times - clustered,
    on step times, closer than a step -, runs cut by max_steps), the same history of steps, callbacks and outputs as the unmutated one"""
    import signal, io, contextlib

    def alarm(*a):
        raise TimeoutError()
    signal.signal(signal.SIGALRM, alarm)
    signal.alarm(40)
    try:
        ref = load(os.path.join(CLEAN, 'pysph/solver/solver.py'), 'refsolver')
        m = load(path, 'mutsolver')
        rnd = random.Random(3)
        cfgs = []
        for k in range(40):
            dt = rnd.choice([0.1, 0.05, 0.03])
            tf = rnd.choice([0.5, 1.0, 0.73])
            times = sorted(set(round(rnd.uniform(0, tf), rnd.choice([1, 2, 3])) for _ in range(rnd.choice([0, 0, 2, 4]))))
            if k % 5 == 0 and times:
                times = sorted(times + [times[0] + 0.004])
            cfgs.append(dict(dt=dt, tf=tf, adaptive=bool(k % 2), pfreq=rnd.choice([1, 3, 100]), cfl=rnd.choice([0.3, 1.0]), times=times, n_damp=rnd.choice([0, 0, 3, 5]),
                             max_steps=rnd.choice([1 << 31, 1 << 31, 4]), adapt=[rnd.choice([None, 0.08, 0.02, 0.2]) for _ in range(5)]))
        with contextlib.redirect_stdout(io.StringIO()), contextlib.redirect_stderr(io.StringIO()):
            for cfg in cfgs:
                try:
                    want = _solver_trace(ref, cfg)
                except Exception:
                    continue
                try:
                    got = _solver_trace(m, cfg)
                except Exception:
                    return False
                if got != want:
                    return False
        return True
    except TimeoutError:
        return False
    except Exception:
        return False
    finally:
        signal.alarm(0)


SOLVER_FUNCS = ('Solver.solve', 'Solver._get_timestep', 'Solver._dump_output_if_needed', 'Solver._compute_timestep', 'Solver._damp_timestep', 'Solver._get_solver_data',
                'Solver._get_undamped_timestep')

TARGETS = {
    'solver': ('pysph/solver/solver.py', SOLVER_FUNCS, 'C10', oracle_solver),
    'riemann': ('pysph/sph/gas_dynamics/riemann_solver.py', None, 'C15', oracle_riemann_property),
    'riemann-equiv': ('pysph/sph/gas_dynamics/riemann_solver.py', None, 'C15', oracle_riemann),
    'kernels': ('pysph/base/kernels.py', None, 'C08', oracle_kernels),
    'linalg': ('pysph/sph/wc/linalg.py', ('identity', 'dot', 'mat_mult', 'mat_vec_mult', 'augmented_matrix', 'gj_solve'), 'C13', oracle_linalg),
}


def main():
    rel, funcs, check, oracle = TARGETS[sys.argv[1]]
    src = open(os.path.join(CLEAN, rel)).read()
    tree = ast.parse(src)
    assert oracle(os.path.join(CLEAN, rel)), 'oracle rejects the clean module'
    T = tempfile.mkdtemp(prefix='mutl_')
    try:
        shutil.copytree(os.path.join(CLEAN, 'pysph'), os.path.join(T, 'pysph'))
        shutil.copytree(os.path.join(CLEAN, 'docs'), os.path.join(T, 'docs'))
        n = nb = missed = fa = 0
        limit = int(os.environ.get('MUT_EVERY', '1'))
        for k_, (what, msrc) in enumerate(mutants(tree, funcs)):
            if k_ % limit:
                continue
            n += 1
            open(os.path.join(T, rel), 'w').write(msrc)
            good = oracle(os.path.join(T, rel))
            r = subprocess.run('cd /verif && VERIF_REPO=%s VERIF_EVIDENCE_DIR=%s/_ev timeout 300 ./check %s --tier quick' % (T, T, check), shell=True,
                               stdout=subprocess.PIPE, stderr=subprocess.STDOUT, text=True)
            flagged = r.returncode != 0
            if not good:
                nb += 1
            if not good and not flagged:
                missed += 1
                print('MISSED   ', what)
            if good and flagged:
                fa += 1
                first = [l for l in r.stdout.splitlines() if l.startswith('  ') and ' at ' in l][:1]
                print('EQUIV-FLAGGED', what, '|', (first[0][:200] if first else r.stdout.strip().splitlines()[-1][:200]))
        open(os.path.join(T, rel), 'w').write(src)
        print('%d mutants, %d breaking by the oracle, %d of those not flagged, %d equivalent-by-oracle but flagged' % (n, nb, missed, fa))
    finally:
        shutil.rmtree(T, ignore_errors=True)


if __name__ == '__main__':
    main()
