"""C19 - the adaptive time step is the documented minimum (static rules, DESIGN.md C19)."""
import ast
import os
import sys

sys.path.insert(0, os.path.dirname(os.path.dirname(os.path.abspath(__file__))))
from verif_static.core import run_check, AnalysisError  # noqa
from verif_static import model as M, cfg as C, norm as N  # noqa

INT = 'pysph/sph/integrator.py'
SOL = 'pysph/solver/solver.py'
INF = ('np.inf', 'numpy.inf', "float('inf')", 'math.inf', 'inf', 'self.dtype_max', 'DBL_MAX')
# criterion -> formula in terms of H (smallest h) and F (the criterion's maximum), from the property statement
FORMULA = {'dt_cfl': 'H / F', 'dt_force': 'sqrt(H / sqrt(F))', 'dt_visc': 'H / F'}


def U(n):
    return M.unparse(n)


def stmt_node(g, n):
    while n is not None and g.node_of(n) is None:
        n = getattr(n, 'parent', None)
    return g.node_of(n) if n is not None else None


def find_folds(fn):
    """running min/max folds: (var, kind, update node, loop)"""
    out = []
    for loop in ast.walk(fn):
        if not isinstance(loop, (ast.For, ast.While)):
            continue
        for n in ast.walk(loop):
            if isinstance(n, ast.Assign) and len(n.targets) == 1 and isinstance(n.value, ast.Call) \
                    and M.call_name(n.value) in ('min', 'max', 'fmin', 'fmax') and len(n.value.args) == 2:
                tv = U(n.targets[0])
                args = [U(a) for a in n.value.args]
                if tv in args:
                    out.append((tv, 'min' if 'min' in M.call_name(n.value) else 'max', n, loop))
            if isinstance(n, ast.If) and isinstance(n.test, ast.Compare) and len(n.test.ops) == 1 and len(n.body) == 1 \
                    and isinstance(n.body[0], ast.Assign) and not n.orelse:
                a = n.body[0]
                tv = U(a.targets[0])
                l, r = U(n.test.left), U(n.test.comparators[0])
                op = n.test.ops[0]
                val = U(a.value)
                if isinstance(op, (ast.Lt, ast.LtE)) and r == tv and l == val:
                    out.append((tv, 'min', n, loop))
                elif isinstance(op, (ast.Gt, ast.GtE)) and r == tv and l == val:
                    out.append((tv, 'max', n, loop))
                elif isinstance(op, (ast.Gt, ast.GtE)) and l == tv and r == val:
                    out.append((tv, 'min', n, loop))
                elif isinstance(op, (ast.Lt, ast.LtE)) and l == tv and r == val:
                    out.append((tv, 'max', n, loop))
    # keep outermost loop per (var, node)
    uniq = {}
    for tv, kind, n, loop in out:
        k = (tv, id(n))
        if k not in uniq or loop.lineno < uniq[k][3].lineno:
            uniq[k] = (tv, kind, n, loop)
    return list(uniq.values())


def seed_of(fn, var, loop):
    """the assignment to `var` (or its container) that precedes `loop`"""
    base = var.split('[')[0]
    best = None
    for n in ast.walk(fn):
        if isinstance(n, (ast.Assign, ast.AnnAssign)) and n.lineno < loop.lineno:
            tg = n.targets if isinstance(n, ast.Assign) else [n.target]
            val = n.value
            if val is None:
                continue
            for t in tg:
                names = [U(x) for x in (t.elts if isinstance(t, ast.Tuple) else [t])]
                if base in names or var in names:
                    if best is None or n.lineno > best.lineno:
                        best = n
    return best


def rule_folds(chk, rel, tree, fnames):
    n = 0
    for cname, fname in fnames:
        fn = M.find_method(tree, cname, fname)
        for var, kind, node, loop in find_folds(fn):
            seed = seed_of(fn, var, loop)
            n += 1
            inst = '%s.%s:%s(%s)' % (cname, fname, kind, var)
            if seed is None:
                chk.undecided('fold-identity', inst, node=node, file=rel, func=fname, detail='no seed assignment found')
                continue
            # what is folded in is computed in this call: a value kept in the object's own state from an earlier call (a cache of the minimum of a "static" array ...)
            # goes stale when the data changes
            operand = None
            if isinstance(node, ast.If):
                a_ = node.body[0]
                operand = a_.value
            elif isinstance(node, ast.Assign) and isinstance(node.value, ast.Call):
                operand = [x for x in node.value.args if U(x) != var][0] if [x for x in node.value.args if U(x) != var] else None
            stale = []
            if operand is not None:
                exprs = [operand]
                if isinstance(operand, ast.Name):
                    exprs = [d.value for d in ast.walk(fn) if isinstance(d, ast.Assign) and U(d.targets[0]) == operand.id]
                for e_ in exprs:
                    called = set(id(c.func) for c in ast.walk(e_) if isinstance(c, ast.Call))
                    for x_ in ast.walk(e_):
                        if isinstance(x_, (ast.Attribute, ast.Subscript)) and id(x_) not in called:
                            root = x_
                            while isinstance(root, (ast.Attribute, ast.Subscript)):
                                root = root.value
                            if isinstance(root, ast.Name) and root.id == 'self' and isinstance(x_, ast.Subscript):
                                stale.append(U(x_))
                chk.decide(not stale, 'fold-identity', inst + ':operand-computed-in-this-call', node=node, file=rel, func=fname,
                           detail_bad='the value folded into %s can come from %s - state kept on the object from an earlier call, not recomputed from the arrays as they are now' % (var, stale),
                           detail_ok='folds %s' % U(operand))
            sv = seed.value
            vals = [sv]
            if isinstance(sv, (ast.List, ast.Tuple)):
                vals = list(sv.elts)
            if kind == 'min':
                ok = all(U(v) in INF or (isinstance(v, ast.Constant) and isinstance(v.value, (int, float)) and v.value >= 1e20)
                         for v in vals)
                chk.decide(ok, 'fold-identity', inst, node=seed, file=rel, func=fname,
                           detail_bad='running minimum %s is seeded with %s: any data above the seed is ignored' % (var, U(sv)),
                           detail_ok='seeded with %s' % U(sv))
            else:
                neg = all((isinstance(v, ast.UnaryOp) and isinstance(v.op, ast.USub) and isinstance(v.operand, ast.Constant))
                          or U(v).startswith('-') for v in vals)
                chk.decide(neg, 'fold-identity', inst, node=seed, file=rel, func=fname,
                           detail_bad='running maximum %s of non-negative criteria is seeded with %s (not below every admissible value)' % (var, U(sv)),
                           detail_ok='seeded with %s (< every admissible value; consumers test > 0)' % U(sv))
    return n


def rule_fresh(chk, rel, tree, quick_scope=None):
    """every read of a cached .minimum/.maximum is dominated by a refresh of the same receiver"""
    n = 0
    for fn in [f for f in ast.walk(tree) if isinstance(f, ast.FunctionDef)]:
        reads = [a for a in ast.walk(fn) if isinstance(a, ast.Attribute) and a.attr in ('minimum', 'maximum')
                 and isinstance(a.ctx, ast.Load) and M.enclosing_func(a) is fn and M.dotted(a.value) is not None
                 and M.dotted(a.value).split('.')[0] not in ('np', 'numpy', 'array', 'math')]
        if not reads:
            continue
        if quick_scope is not None and fn.name not in quick_scope:
            continue
        g = C.build_cfg(fn)
        refresh = []
        for c in M.calls(fn):
            nm = M.call_name(c) or ''
            if nm.endswith('.update_min_max') or nm.endswith('.update_minmax_cl') or nm.endswith('.update_minmax'):
                refresh.append((nm.rsplit('.', 1)[0], stmt_node(g, c), c))
        # local aliases  x = pa.x
        alias = {}
        for a in ast.walk(fn):
            if isinstance(a, ast.Assign) and len(a.targets) == 1 and isinstance(a.targets[0], ast.Name) \
                    and M.dotted(a.value) is not None:
                alias.setdefault(a.targets[0].id, set()).add(M.dotted(a.value))
            if isinstance(a, ast.Assign) and isinstance(a.value, ast.Call) and isinstance(a.targets[0], ast.Name):
                nm = M.call_name(a.value) or ''
                if nm.endswith('.get_carray') or nm.endswith('.get_device_array'):
                    alias.setdefault(a.targets[0].id, set()).add(nm.rsplit('.', 1)[0] + '.<carray>')
        seen = set()
        for r in reads:
            recv = M.dotted(r.value)
            key = (fn.name, recv)
            if key in seen:
                continue
            seen.add(key)
            rn = stmt_node(g, r)
            owners = {recv} | alias.get(recv, set())
            for o in list(owners):
                owners |= set(o.rsplit('.', i)[0] for i in range(1, o.count('.') + 1))
                # pa_wrapper.x is refreshed by pa_wrapper.pa.update_min_max()
                if '.' in o:
                    owners.add(o.rsplit('.', 1)[0] + '.pa')
                    owners.add(o.rsplit('.', 1)[0] + '.gpu')
            valid = [rid for base, rid, c in refresh if rid is not None and base in owners
                     and not (rid == rn and c.lineno > r.lineno)]
            ok = rn is not None and bool(valid) and g.must_pass(g.entry, rn, valid) and rn not in valid
            n += 1
            chk.decide(ok, 'cached-minmax-fresh', '%s:%s' % (M.qualname(fn), recv), node=r, file=rel, func=M.qualname(fn),
                       detail_bad='%s.%s is read but no update_min_max() on that array dominates the read '
                                  '(the cached value is whatever an earlier, unrelated call left there)' % (recv, r.attr),
                       detail_ok='refresh dominates the read')
    return n


def rule_provenance(chk, tree):
    cls = M.find_class(tree, 'Integrator')
    fac = M.find_func(cls, '_get_dt_adapt_factors')
    cts = M.find_func(cls, 'compute_time_step')
    # 1. name tuple order -> factor index
    tuples = [t for t in ast.walk(fac) if isinstance(t, ast.Tuple) and all(M.const_str(e) in FORMULA for e in t.elts)
              and len(t.elts) == 3]
    if not tuples:
        raise AnalysisError('criterion name tuple vanished from _get_dt_adapt_factors')
    order = [M.const_str(e) for e in tuples[0].elts]
    for t in tuples:
        chk.decide([M.const_str(e) for e in t.elts] == order, 'criterion-provenance', 'name-order@%d' % t.lineno, node=t,
                   file=INT, func='_get_dt_adapt_factors',
                   detail_bad='criterion tuples disagree in order: %s vs %s' % ([M.const_str(e) for e in t.elts], order),
                   detail_ok='order %s' % order)
    # each loop enumerates the tuple and indexes factors with the enumerate index under `name in pa.properties`
    for loop in [l for l in ast.walk(fac) if isinstance(l, ast.For) and isinstance(l.iter, ast.Call)
                 and M.call_name(l.iter) == 'enumerate']:
        iv, nv = [U(e) for e in loop.target.elts]
        earg = loop.iter.args[0] if loop.iter.args else None
        full = isinstance(earg, ast.Tuple) and [M.const_str(e) for e in earg.elts] == order
        chk.decide(full, 'criterion-provenance', 'index-is-position-in-criterion-tuple@%d' % loop.lineno, node=loop, file=INT,
                   func='_get_dt_adapt_factors',
                   detail_bad='factor slot index comes from enumerate(%s): it is not the position of the name in %s, so a maximum can '
                              'land in another criterion\'s slot and formula' % (U(earg) if earg is not None else None, order),
                   detail_ok='enumerate over the full criterion tuple')
        upd = [a for a in ast.walk(loop) if isinstance(a, ast.Assign) and isinstance(a.targets[0], ast.Subscript)
               and U(a.targets[0].value) == 'factors']
        for a in upd:
            idx = U(a.targets[0].slice)
            val = a.value
            ok = idx == iv and isinstance(val, ast.Call) and M.call_name(val) == 'max' and \
                U(val.args[0]) == 'factors[%s]' % iv
            src = U(val.args[1]) if isinstance(val, ast.Call) and len(val.args) > 1 else ''
            d = None
            for s in ast.walk(loop):
                if isinstance(s, ast.Assign) and U(s.targets[0]) == src:
                    d = s.value
            uses_name = d is not None and nv in [x.id for x in ast.walk(d) if isinstance(x, ast.Name)]
            ismax = d is not None and ('max' in U(d))
            chk.decide(ok and uses_name and ismax, 'criterion-provenance', 'factor-fold@%d' % a.lineno, node=a, file=INT,
                       func='_get_dt_adapt_factors',
                       detail_bad='factor update %s does not fold max over the property named by the enumerated criterion' % U(a),
                       detail_ok='factors[i] = max(factors[i], max of property name_i)')
    # unpack/return order
    ret = [r for r in ast.walk(fac) if isinstance(r, ast.Return) and r.value is not None]
    unpack = [a for a in ast.walk(fac) if isinstance(a, ast.Assign) and U(a.value) == 'factors' and isinstance(a.targets[0], ast.Tuple)]
    if len(ret) != 1:
        raise AnalysisError('_get_dt_adapt_factors return shape changed')
    rv = ret[0].value
    if unpack:
        names = [U(e) for e in unpack[0].targets[0].elts]
        rnames = [U(e) for e in rv.elts] if isinstance(rv, ast.Tuple) else []
        chk.decide(names == rnames, 'criterion-provenance', 'return-order', node=ret[0], file=INT, func='_get_dt_adapt_factors',
                   detail_bad='factors unpacked as %s but returned as %s' % (names, rnames), detail_ok='returned in tuple order')
    elif U(rv) not in ('factors', 'tuple(factors)'):
        chk.undecided('criterion-provenance', 'return-order', node=ret[0], file=INT, func='_get_dt_adapt_factors',
                      detail='unknown return shape %s' % U(rv))
    # 2. compute_time_step: i-th unpacked factor feeds the i-th formula
    un = [a for a in ast.walk(cts) if isinstance(a, ast.Assign) and isinstance(a.value, ast.Call)
          and M.call_name(a.value) == 'self._get_dt_adapt_factors' and isinstance(a.targets[0], ast.Tuple)]
    if not un:
        raise AnalysisError('compute_time_step no longer unpacks _get_dt_adapt_factors()')
    fvars = [U(e) for e in un[0].targets[0].elts]
    hvar = None
    for a in ast.walk(cts):
        if isinstance(a, ast.Assign) and U(a.value) == 'self.h_minimum':
            hvar = U(a.targets[0])
    if hvar is None:
        raise AnalysisError('compute_time_step no longer reads self.h_minimum')
    crit_vars = []
    for crit, fv in zip(order, fvars):
        want = U(ast.parse(FORMULA[crit].replace('H', hvar).replace('F', fv), mode='eval').body)
        found = None
        for i in ast.walk(cts):
            if isinstance(i, ast.If) and fv in [x.id for x in ast.walk(i.test) if isinstance(x, ast.Name)]:
                for b in i.body:
                    if isinstance(b, ast.Assign):
                        found = (i, b)
        if found is None:
            chk.violated('criterion-provenance', 'formula:' + crit, node=cts, file=INT, func='compute_time_step',
                         detail='no guarded step estimate for criterion %s (factor %s)' % (crit, fv))
            continue
        i, b = found
        gok = N.same(i.test, '%s > 0' % fv)
        got = U(b.value).replace('np.sqrt', 'sqrt').replace('numpy.sqrt', 'sqrt').replace('math.sqrt', 'sqrt')
        chk.decide(got == want, 'criterion-provenance', 'formula:' + crit, node=b, file=INT, func='compute_time_step',
                   detail_bad='criterion %s uses %s, documented formula is %s' % (crit, got, want), detail_ok=want)
        chk.decide(gok, 'criterion-provenance', 'skip-unless-positive:' + crit, node=i, file=INT, func='compute_time_step',
                   detail_bad='criterion %s applied under %s (must be skipped unless its factor is positive)' % (crit, U(i.test)),
                   detail_ok='applied only if %s > 0' % fv)
        crit_vars.append(U(b.targets[0]))
    # 3. min over the three, scaled by cfl, None when nothing applies
    mins = [a for a in ast.walk(cts) if isinstance(a, ast.Assign) and isinstance(a.value, ast.Call)
            and M.call_name(a.value) == 'min' and set(U(x) for x in a.value.args) == set(crit_vars) and len(crit_vars) == 3]
    chk.decide(bool(mins), 'criterion-provenance', 'min-of-all-criteria', node=cts, file=INT, func='compute_time_step',
               detail_bad='the proposed step is not min(%s)' % ', '.join(crit_vars), detail_ok='min(%s)' % ', '.join(crit_vars))
    # criteria default to +inf so that absent ones never win
    dflt = [a for a in ast.walk(cts) if isinstance(a, ast.Assign) and set(U(t) for t in a.targets) == set(crit_vars)]
    chk.decide(bool(dflt) and U(dflt[0].value) in INF, 'criterion-provenance', 'absent-criteria-are-inf', node=cts, file=INT,
               func='compute_time_step', detail_bad='criteria not defaulted to +inf', detail_ok='defaults +inf')
    if mins:
        mv = U(mins[0].targets[0])
        rets = [r for r in ast.walk(cts) if isinstance(r, ast.Return) and r.value is not None and mv in U(r.value)]
        ok = bool(rets) and all(U(r.value).replace(' ', '') in ('cfl*%s' % mv, '%s*cfl' % mv) for r in rets)
        chk.decide(ok, 'criterion-provenance', 'scaled-by-cfl', node=rets[0] if rets else cts, file=INT, func='compute_time_step',
                   detail_bad='result is %s, documented cfl*min(...)' % ([U(r.value) for r in rets]), detail_ok='cfl*' + mv)
        none_guard = [i for i in ast.walk(cts) if isinstance(i, ast.If) and mv in U(i.test)
                      and any(isinstance(b, ast.Return) and U(b.value) == 'None' for b in i.body)]
        ok = bool(none_guard) and N.same(none_guard[0].test, 'np.isinf(%s) or %s <= 0' % (mv, mv), 'numpy.isinf(%s) or %s <= 0' % (mv, mv), 'math.isinf(%s) or %s <= 0' % (mv, mv))
        chk.decide(ok, 'criterion-provenance', 'none-when-no-criterion', node=cts, file=INT, func='compute_time_step',
                   detail_bad='None is not returned when no criterion applies (min is inf or <= 0)', detail_ok='returns None')
    # 4. dt_adapt override dominates everything
    g = C.build_cfg(cts)
    ov = [n for n in ast.walk(cts) if isinstance(n, ast.If) and 'is not None' in U(n.test)
          and any(isinstance(b, ast.Return) for b in n.body)]
    first = [a for a in ast.walk(cts) if isinstance(a, ast.Assign) and M.call_name(a.value) == 'self._get_explicit_dt_adapt'] \
        if True else []
    ok = bool(ov) and bool(first) and U(ov[0].body[0].value) == U(first[0].targets[0]) and \
        g.dominates(g.node_of(ov[0]), g.node_of(un[0]))
    chk.decide(ok, 'dt-adapt-override', 'override-first', node=cts, file=INT, func='compute_time_step',
               detail_bad='an explicit dt_adapt does not take precedence', detail_ok='returned before the criteria are consulted')
    ex = M.find_func(cls, '_get_explicit_dt_adapt')
    src = U(ex)
    pos = [i for i in ast.walk(ex) if isinstance(i, ast.If) and N.same(i.test, 'dt_min > 0')]
    ok = bool(pos) and isinstance(pos[0].body[0], ast.Return) and U(pos[0].body[0].value) == 'dt_min' and \
        any(isinstance(b, ast.Return) and U(b.value) == 'None' for b in pos[0].orelse)
    chk.decide(ok, 'dt-adapt-override', 'positive-or-none', node=ex, file=INT, func='_get_explicit_dt_adapt',
               detail_bad='non-positive dt_adapt does not fall through to the criteria', detail_ok='dt_min if > 0 else None')
    # empty arrays contribute +inf; arrays are filtered by having the property; real particles only
    empt = [i for i in ast.walk(ex) if isinstance(i, ast.If) and N.same(i.test, 'pa.get_number_of_particles() > 0', 'pa.gpu.get_number_of_particles() > 0')]
    ok = len(empt) >= 1 and all(any(isinstance(b, ast.Assign) and U(b.value) in INF for b in i.orelse) for i in empt)
    chk.decide(ok, 'dt-adapt-override', 'empty-arrays-are-inf', node=ex, file=INT, func='_get_explicit_dt_adapt',
               detail_bad='an empty array does not contribute +inf to the minimum', detail_ok='+inf for empty arrays')
    hasprop = [i for i in ast.walk(ex) if isinstance(i, ast.If) and U(i.test) == "'dt_adapt' in pa.properties"]
    chk.decide(bool(hasprop), 'dt-adapt-override', 'only-arrays-with-property', node=ex, file=INT, func='_get_explicit_dt_adapt',
               detail_bad='arrays lacking dt_adapt are not skipped', detail_ok='filtered by membership')
    mn = [c for c in M.calls(ex) if M.call_name(c) in ('np.min', 'numpy.min', 'min') and c.args and U(c.args[0]) == 'pa.dt_adapt']
    chk.decide(bool(mn), 'dt-adapt-override', 'min-over-real-particles', node=ex, file=INT, func='_get_explicit_dt_adapt',
               detail_bad='dt_adapt is not reduced with min over pa.dt_adapt (the real-particle view)',
               detail_ok='np.min(pa.dt_adapt): attribute access yields real particles only')


def rule_fallback(chk):
    t = M.py(SOL)
    fn = M.find_method(t, 'Solver', '_compute_timestep')
    g = C.build_cfg(fn)
    call = [a for a in ast.walk(fn) if isinstance(a, ast.Assign) and isinstance(a.value, ast.Call)
            and M.call_name(a.value) == 'self.integrator.compute_time_step']
    if not call:
        raise AnalysisError('Solver._compute_timestep no longer calls integrator.compute_time_step')
    dtv = U(call[0].targets[0])
    a0 = call[0].value.args
    und = [a for a in ast.walk(fn) if isinstance(a, ast.Assign) and M.call_name(a.value) == 'self._get_undamped_timestep']
    uv = U(und[0].targets[0]) if und else None
    chk.decide(uv is not None and len(a0) == 2 and U(a0[0]) == uv and U(a0[1]) == 'self.cfl', 'fallback-to-fixed-step',
               'arguments', node=call[0], file=SOL, func='_compute_timestep',
               detail_bad='compute_time_step is not called with (undamped dt, self.cfl)', detail_ok='(undamped_dt, self.cfl)')
    # serial path: None -> undamped fixed step
    fb = [i for i in ast.walk(fn) if isinstance(i, ast.If) and U(i.test) == '%s is None' % dtv]
    serial = [i for i in fb if any(isinstance(b, ast.Assign) and U(b.value) == uv for b in i.body)]
    chk.decide(bool(serial), 'fallback-to-fixed-step', 'none-keeps-fixed-step', node=fn, file=SOL, func='_compute_timestep',
               detail_bad='when no criterion applies the undamped fixed step is not kept', detail_ok='dt = undamped_dt')
    # every return returns a value that was checked for None on the adaptive path
    rets = [r for r in ast.walk(fn) if isinstance(r, ast.Return)]
    ok = all(U(r.value) == dtv for r in rets)
    nonadapt = [i for i in ast.walk(fn) if isinstance(i, ast.If) and U(i.test) == 'self.adaptive_timestep']
    ok2 = bool(nonadapt) and any(isinstance(b, ast.Assign) and U(b.value) == uv for b in nonadapt[0].orelse)
    chk.decide(ok and ok2, 'fallback-to-fixed-step', 'non-adaptive-uses-fixed-step', node=fn, file=SOL, func='_compute_timestep',
               detail_bad='non-adaptive runs do not use the undamped fixed step', detail_ok='else: dt = undamped_dt')
    if fb and call:
        cn = g.node_of(call[0])
        retn = [g.node_of(r) for r in rets]
        guards = [g.node_of(i) for i in fb]
        ok = all(g.must_pass(cn, r, guards) for r in retn if r is not None)
        chk.decide(ok, 'fallback-to-fixed-step', 'none-never-returned', node=fn, file=SOL, func='_compute_timestep',
                   detail_bad='a path returns the integrator result without the None test', detail_ok='every path tests for None')


def rule_consulted_every_step(chk):
    """the adaptive criteria are consulted for every step the solver proposes"""
    t = M.py(SOL)
    gt = M.find_method(t, 'Solver', '_get_timestep')
    g = C.build_cfg(gt)
    comp = [n.id for n in g.nodes if n.ast is not None and isinstance(n.ast, (ast.Assign, ast.Expr)) and
            any(M.call_name(c) == 'self._compute_timestep' for c in M.calls(n.ast))]
    rets = [n for n in g.nodes if isinstance(n.ast, ast.Return)]
    cont = [n for n in rets if not (M.enclosing(n.ast, (ast.If,)) is not None and
                                    N.same(M.enclosing(n.ast, (ast.If,)).test, 'abs(self.tf-self.t)<self._epsilon', 'abs(self.t-self.tf)<self._epsilon'))]
    ok = bool(comp) and bool(cont) and all(g.must_pass(g.entry, r.id, comp) for r in cont)
    chk.decide(ok, 'fallback-to-fixed-step', 'criteria-consulted-for-every-step', node=gt, file=SOL, func='Solver._get_timestep',
               detail_bad='some path proposes the next step without calling _compute_timestep(): a stale step (e.g. the one saved before a '
                          'step shortened to an output time) is reused although the criteria have tightened',
               detail_ok='every continuing path calls _compute_timestep()')
    # after the criteria have been consulted the proposed step may only be shortened: the one adjustment allowed is landing on the final time,
    # and only when the step would otherwise pass tf - epsilon (so the step grows by at most epsilon, never to a multiple of itself)
    M.set_parents(gt)
    rv = set(U(r.value) for r in ast.walk(gt) if isinstance(r, ast.Return) and isinstance(r.value, ast.Name))
    last = max([g.nodes[c_].ast.lineno for c_ in comp] or [0])
    for a in ast.walk(gt):
        if isinstance(a, (ast.Assign, ast.AugAssign)) and a.lineno > last:
            tg = U(a.targets[0]) if isinstance(a, ast.Assign) else U(a.target)
            if tg not in rv:
                continue
            if isinstance(a, ast.Assign) and any((M.call_name(c_) or '') in ('self._damp_timestep', 'self._compute_timestep') for c_ in M.calls(a)):
                continue
            gi = M.enclosing(a, (ast.If,))
            ok = isinstance(a, ast.Assign) and N.same(a.value, 'self.tf - self.t') and gi is not None and a in gi.body and \
                N.same(gi.test, 'self.t + %s > self.tf - self._epsilon' % tg, 'self.t + %s >= self.tf - self._epsilon' % tg)
            chk.decide(ok, 'fallback-to-fixed-step', 'stable-step-only-shortened:%s' % U(a)[:40], node=a, file=SOL, func='Solver._get_timestep',
                       detail_bad='after the stability criteria were applied the step is changed by `%s` under `%s`: only `dt = tf - t` when t + dt > tf - epsilon is allowed '
                                  '(any wider window lets the last step exceed the stable step)' % (U(a), U(gi.test) if gi is not None else 'no guard'),
                       detail_ok='dt = tf - t only when t + dt would pass tf - epsilon')
    sv = M.find_method(t, 'Solver', 'solve')
    nxt = [a for a in ast.walk(sv) if isinstance(a, ast.Assign) and U(a.targets[0]) == 'self.dt' and M.call_name(a.value) == 'self._get_timestep']
    chk.decide(len(nxt) == 2, 'fallback-to-fixed-step', 'solver-asks-before-every-step', node=sv, file=SOL, func='Solver.solve',
               detail_bad='self.dt = self._get_timestep() sites: %d (one before the loop, one per iteration expected)' % len(nxt), detail_ok='before the loop and in every iteration')


def main(chk):
    chk.explanation = ('Fold identities (running min seeded +inf, running max seeded below admissible values), freshness of '
                       'cached carray minimum/maximum (dominance of update_min_max on the same receiver), criterion-name to '
                       'formula provenance compared with the formulas of the property statement, dt_adapt override, fallback '
                       'to the fixed step in Solver._compute_timestep.')
    t = M.py(INT)
    n = rule_folds(chk, INT, t, [('Integrator', 'compute_h_minimum'), ('Integrator', '_get_explicit_dt_adapt'),
                                 ('Integrator', '_get_dt_adapt_factors')])
    chk.floor('folds in integrator.py', n, 3)
    # _my_max identity for empty input
    mm = M.find_method(t, 'Integrator', '_my_max')
    rets = [U(r.value) for r in ast.walk(mm) if isinstance(r, ast.Return)]
    chk.decide(any(r.startswith('-') for r in rets) and any('max' in r for r in rets), 'fold-identity', 'Integrator._my_max',
               node=mm, file=INT, func='_my_max', detail_bad='empty input does not map to a value below every admissible maximum',
               detail_ok='empty -> negative sentinel')
    n = rule_fresh(chk, INT, t)
    chk.floor('cached min/max reads in integrator.py', n, 1)
    rule_provenance(chk, t)
    rule_fallback(chk)
    rule_consulted_every_step(chk)
    units = [INT, SOL]
    if chk.tier == 'thorough':
        total = 0
        for rel in ('pysph/base/nnps_base.pyx', 'pysph/base/octree.pyx', 'pysph/parallel/parallel_manager.pyx'):
            tr = M.cy(rel)
            total += rule_fresh(chk, rel, tr)
            units.append(rel)
        chk.floor('cached min/max reads in CPU .pyx files', total, 12)
        tr = M.cy('pysph/base/nnps_base.pyx')
        n = rule_folds(chk, 'pysph/base/nnps_base.pyx', tr, [('CPUDomainManager', '_compute_cell_size_for_binning'),
                                                            ('NNPS', '_compute_bounds')])
        chk.floor('folds in nnps_base.pyx', n, 2)
    chk.unit('files', units)
    chk.assume('carray.update_min_max() recomputes minimum/maximum from the current data (cyarray)')
    chk.assume('attribute access pa.<prop> returns the real-particle view (ParticleArray.__getattr__)')


if __name__ == '__main__':
    run_check('C19', main)
