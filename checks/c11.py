"""C11 - saved output loads back to the same particles (key-table agreement, DESIGN.md C11)."""
import ast
import os
import sys

sys.path.insert(0, os.path.dirname(os.path.dirname(os.path.abspath(__file__))))
from verif_static.core import run_check, AnalysisError  # noqa
from verif_static import model as M, cfg as C  # noqa

OUT = 'pysph/solver/output.py'
BU = 'pysph/base/utils.py'
PA = 'pysph/base/particle_array.pyx'
ROUND_TRIP_ARRAY_KEYS = ('properties', 'constants', 'output_property_arrays')


def U(n):
    return M.unparse(n)


def str_subscripts(node, base=None):
    """string keys used as X['key'] / X.get('key') (optionally for a given base expression text)"""
    out = {}
    for s in ast.walk(node):
        if isinstance(s, ast.Subscript) and M.const_str(s.slice) is not None:
            if base is None or U(s.value) == base or U(s.value).endswith(base):
                out.setdefault(M.const_str(s.slice), s)
        if isinstance(s, ast.Call) and isinstance(s.func, ast.Attribute) and s.func.attr == 'get' and s.args \
                and M.const_str(s.args[0]) is not None:
            if base is None or U(s.func.value) == base or U(s.func.value).endswith(base):
                out.setdefault(M.const_str(s.args[0]), s)
    return out


def main(chk):
    chk.explanation = ('Key-flow agreement (E2): the per-property record and per-array record produced by get_particles_info are '
                       'compared with what each writer persists, each reader restores and add_property/ParticleArray consume; '
                       'reader branches agree; top-level keys/groups and versions agree; detailed_output/only_real reach '
                       'get_property_arrays; writer and reader are chosen from the same extension table.')
    out = M.py(OUT)
    bu = M.py(BU)
    pa = M.cy(PA)
    pacls = M.find_class(pa, 'ParticleArray')
    addp = M.find_func(pacls, 'add_property')
    params = set(M.arg_names(addp)) - {'self'}
    # ---- producer
    gpi = M.find_func(bu, 'get_particles_info')
    rec = None
    for a in ast.walk(gpi):
        if isinstance(a, ast.Assign) and isinstance(a.value, ast.Dict) and isinstance(a.targets[0], ast.Subscript) \
                and len(a.value.keys) >= 3:
            rec = a
    if rec is None:
        raise AnalysisError('per-property record literal vanished from get_particles_info')
    rkeys = set(M.const_str(k) for k in rec.value.keys)
    chk.decide(rkeys <= params and {'name', 'type', 'default', 'stride', 'data'} <= rkeys, 'property-record-keys', 'producer-vs-add_property',
               node=rec, file=BU, func='get_particles_info',
               detail_bad='record keys %s vs add_property parameters %s (name,type,default,stride,data all required)' % (sorted(rkeys), sorted(params)),
               detail_ok='%s' % sorted(rkeys))
    vals = dict((M.const_str(k), U(v)) for k, v in zip(rec.value.keys, rec.value.values))
    key = U(rec.targets[0].slice)
    want = {'name': key, 'type': 'prop.get_c_type()', 'default': 'parray.default_values[%s]' % key,
            'stride': 'parray.stride.get(%s, 1)' % key}
    for k, w in sorted(want.items()):
        chk.decide(vals.get(k) == w, 'property-record-keys', 'producer-value:' + k, node=rec, file=BU, func='get_particles_info',
                   detail_bad='record[%s] = %s, expected %s (the attribute of the same property)' % (k, vals.get(k), w), detail_ok=w)
    arec = [c for c in M.calls(gpi) if M.call_name(c) == 'dict' and len(c.keywords) >= 3]
    if not arec:
        raise AnalysisError('per-array record vanished from get_particles_info')
    akeys = set(k.arg for k in arec[0].keywords)
    chk.decide(set(ROUND_TRIP_ARRAY_KEYS) <= akeys, 'array-record-keys', 'producer', node=arec[0], file=BU, func='get_particles_info',
               detail_bad='per-array record lacks %s' % sorted(set(ROUND_TRIP_ARRAY_KEYS) - akeys), detail_ok=str(sorted(akeys)))
    akv = dict((k.arg, U(k.value)) for k in arec[0].keywords)
    chk.decide(akv.get('output_property_arrays') == 'parray.output_property_arrays', 'array-record-keys', 'producer-value:output_property_arrays',
               node=arec[0], file=BU, func='get_particles_info', detail_bad='output list recorded as %s' % akv.get('output_property_arrays'),
               detail_ok='parray.output_property_arrays')

    ploop = M.enclosing(arec[0], (ast.For,))
    for k in arec[0].keywords:
        if isinstance(k.value, ast.Name):
            nm = k.value.id
            mutated = any(isinstance(a, ast.Assign) and isinstance(a.targets[0], ast.Subscript) and U(a.targets[0].value) == nm
                          for a in ast.walk(gpi))
            if not mutated:
                continue
            created = [a for a in ast.walk(gpi) if isinstance(a, ast.Assign) and U(a.targets[0]) == nm]
            inside = ploop is not None and bool(created) and all(any(a is x for x in ast.walk(ploop)) for a in created)
            chk.decide(inside, 'array-record-keys', 'fresh-per-array:' + nm, node=created[0] if created else gpi, file=BU,
                       func='get_particles_info',
                       detail_bad='%s is filled per particle array but created once outside the loop: all arrays share (and overwrite) one '
                                  'dictionary' % nm, detail_ok='created anew for every array')
    # ---- Output.dump plumbing
    ocls = M.find_class(out, 'Output')
    dump = M.find_func(ocls, 'dump')
    gpa = [c for c in M.calls(dump) if isinstance(c.func, ast.Attribute) and c.func.attr == 'get_property_arrays']
    kw = dict((k.arg, U(k.value)) for k in gpa[0].keywords) if gpa else {}
    chk.decide(kw.get('all') == 'self.detailed_output' and kw.get('only_real') == 'self.only_real', 'options-reach-writer',
               'Output.dump', node=gpa[0] if gpa else dump, file=OUT, func='Output.dump',
               detail_bad='get_property_arrays called with %s' % kw, detail_ok='all=self.detailed_output, only_real=self.only_real')
    loop = M.enclosing(gpa[0], (ast.For,)) if gpa else None
    chk.decide(loop is not None and U(loop.iter) == 'particles', 'options-reach-writer', 'every-array', node=dump, file=OUT,
               func='Output.dump', detail_bad='not every particle array is written', detail_ok='for array in particles')
    oinit = M.find_func(ocls, '__init__')
    sto = dict((U(a.targets[0]), U(a.value)) for a in ast.walk(oinit) if isinstance(a, ast.Assign))
    chk.decide(all(sto.get('self.' + k) == k for k in ('detailed_output', 'only_real', 'compress', 'mpi_comm')), 'options-reach-writer',
               'Output.__init__', node=oinit, file=OUT, func='Output.__init__', detail_bad='constructor stores %s' % sto, detail_ok='stored verbatim')
    dfn = M.find_func(out, 'dump')
    order = [a for a in M.arg_names(oinit) if a != 'self']
    for c in M.calls(dfn):
        if M.call_name(c) in ('HDFOutput', 'NumpyOutput'):
            got = [U(a) for a in c.args]
            chk.decide(got == order[:len(got)] and len(got) == 4, 'options-reach-writer', 'dump->' + M.call_name(c), node=c, file=OUT,
                       func='dump', detail_bad='%s(%s) vs parameters %s' % (M.call_name(c), ', '.join(got), order), detail_ok='positional order matches')
    # get_property_arrays slices by count*stride of the same key
    gp = M.find_func(pacls, 'get_property_arrays')
    sl = [s for s in ast.walk(gp) if isinstance(s, ast.Subscript) and isinstance(s.slice, ast.Slice)]
    okk = bool(sl) and U(sl[0].slice.upper).replace(' ', '') in ('num_particles*stride', 'stride*num_particles')
    sdef = [a for a in ast.walk(gp) if isinstance(a, ast.Assign) and U(a.targets[0]) == 'stride']
    npd = [a for a in ast.walk(gp) if isinstance(a, ast.Assign) and U(a.targets[0]) == 'num_particles']
    okk = okk and bool(sdef) and U(sdef[0].value) == 'self.stride.get(prop, 1)' and bool(npd) and \
        U(npd[0].value) == 'self.get_number_of_particles(only_real)'
    chk.decide(okk, 'options-reach-writer', 'get_property_arrays:count*stride', node=gp, file=PA, func='get_property_arrays',
               detail_bad='stored slice is not [: number_of_particles(only_real) * stride(prop)]', detail_ok='[:num_particles*stride]')
    allp = [i for i in ast.walk(gp) if isinstance(i, ast.If) and U(i.test).replace(' ', '') in ('allorlen(props)==0',)]
    chk.decide(bool(allp), 'options-reach-writer', 'get_property_arrays:all-or-output-list', node=gp, file=PA, func='get_property_arrays',
               detail_bad='brief output does not use output_property_arrays / detailed output all properties', detail_ok='all or empty list -> every property')

    # ---- npz writer / reader
    ncls = M.find_class(out, 'NumpyOutput')
    nd, nl = M.find_func(ncls, '_dump'), M.find_func(ncls, '_load')
    topw = set()
    for a in ast.walk(nd):
        if isinstance(a, ast.Assign) and U(a.targets[0]) == 'output_data' and isinstance(a.value, ast.Dict):
            topw |= set(M.const_str(k) for k in a.value.keys)
    sv = [c for c in M.calls(nd) if M.call_name(c) == 'save_method']
    ver = None
    if sv:
        for k in sv[0].keywords:
            if k.arg == 'version':
                ver = U(k.value)
                topw.add('version')
    whole = any(isinstance(v, ast.Attribute) and U(v) == 'self.particle_data' for a in ast.walk(nd) if isinstance(a, ast.Dict) for v in a.values)
    chk.decide(whole and ver == '2', 'npz-keys', 'writer-persists-whole-record', node=nd, file=OUT, func='NumpyOutput._dump',
               detail_bad='npz writer does not store the whole particle record with version=2', detail_ok='particles=self.particle_data, version=2')
    arr_added = [a for a in ast.walk(nd) if isinstance(a, ast.Assign) and isinstance(a.targets[0], ast.Subscript)
                 and M.const_str(a.targets[0].slice) == 'arrays']
    chk.decide(bool(arr_added) and U(arr_added[0].value) == 'arrays' and 'self.all_array_data.items()' in U(M.enclosing(arr_added[0], (ast.For,)).iter),
               'npz-keys', 'writer-attaches-data', node=nd, file=OUT, func='NumpyOutput._dump',
               detail_bad='stored data are not attached per array under "arrays"', detail_ok='particle_data[name]["arrays"] = arrays')
    topr = set(k for k in str_subscripts(nl, 'data'))
    chk.decide(topr <= topw | {'arrays'} and {'version', 'solver_data', 'particles'} <= topr, 'npz-keys', 'top-level', node=nl, file=OUT,
               func='NumpyOutput._load', detail_bad='reader uses top-level keys %s, writer stores %s' % (sorted(topr), sorted(topw)),
               detail_ok='%s' % sorted(topr))
    # v2 reader consumes the record keys
    v2 = [i for i in ast.walk(nl) if isinstance(i, ast.If) and U(i.test).replace(' ', '') == 'version==2']
    v1 = [i for i in ast.walk(nl) if isinstance(i, ast.If) and U(i.test).replace(' ', '') == 'version==1']
    chk.decide(bool(v1) and bool(v2), 'npz-keys', 'versions-1-and-2-handled', node=nl, file=OUT, func='NumpyOutput._load',
               detail_bad='reader lacks a branch for version 1 or 2', detail_ok='both branches present')
    if v2:
        body = ast.Module(body=v2[0].body, type_ignores=[])
        used = set(str_subscripts(body, 'array_info'))
        chk.decide(set(ROUND_TRIP_ARRAY_KEYS) | {'arrays'} <= used and used <= akeys | {'arrays'}, 'npz-keys', 'v2-reader-restores-record',
                   node=v2[0], file=OUT, func='NumpyOutput._load',
                   detail_bad='v2 reader uses %s of the per-array record %s (+arrays)' % (sorted(used), sorted(akeys)), detail_ok=str(sorted(used)))
        ctor = [c for c in M.calls(body) if M.call_name(c) == 'ParticleArray']
        okc = bool(ctor) and any(k.arg == 'constants' and 'constants' in U(k.value) for k in ctor[0].keywords) and \
            any(k.arg is None and 'properties' in U(k.value) for k in ctor[0].keywords) and \
            any(k.arg == 'name' for k in ctor[0].keywords)
        chk.decide(okc, 'npz-keys', 'v2-reader-constructs-array', node=ctor[0] if ctor else v2[0], file=OUT, func='NumpyOutput._load',
                   detail_bad='array is not rebuilt from name, constants and the property records', detail_ok='ParticleArray(name, constants, **properties)')
        inj = [a for a in ast.walk(body) if isinstance(a, ast.Assign) and isinstance(a.targets[0], ast.Subscript)
               and M.const_str(a.targets[0].slice) == 'data']
        chk.decide(bool(inj) and "['properties'][prop]" in U(inj[0].targets[0]), 'npz-keys', 'v2-reader-injects-data', node=v2[0], file=OUT,
                   func='NumpyOutput._load', detail_bad='stored data is not placed in the record of the same property', detail_ok=U(inj[0]) if inj else '')
        so = [c for c in M.calls(body) if isinstance(c.func, ast.Attribute) and c.func.attr == 'set_output_arrays']
        chk.decide(bool(so) and 'output_property_arrays' in U(so[0]), 'npz-keys', 'v2-reader-restores-output-list', node=v2[0], file=OUT,
                   func='NumpyOutput._load', detail_bad='output array list is not restored', detail_ok=U(so[0]) if so else '')
    if v1:
        body = ast.Module(body=v1[0].body, type_ignores=[])
        ok = any(M.call_name(c) == 'get_particle_array' and any(k.arg == 'name' for k in c.keywords) for c in M.calls(body))
        chk.decide(ok, 'npz-keys', 'v1-reader', node=v1[0], file=OUT, func='NumpyOutput._load',
                   detail_bad='version-1 files are no longer rebuilt through get_particle_array(name=..., **arrays)', detail_ok='get_particle_array')
    els = [r for r in ast.walk(nl) if isinstance(r, ast.Raise)]
    chk.decide(len(els) >= 2, 'npz-keys', 'unknown-version-raises', node=nl, file=OUT, func='NumpyOutput._load',
               detail_bad='missing or unknown version does not raise', detail_ok='raises')

    # ---- hdf5 writer / reader
    hcls = M.find_class(out, 'HDFOutput')
    hd, hl = M.find_func(hcls, '_dump'), M.find_func(hcls, '_load')
    gpart = M.find_func(hcls, '_get_particles')
    sp = M.find_func(hcls, '_set_properties')
    grp_w = set(M.const_str(c.args[0]) for c in M.calls(hd) if isinstance(c.func, ast.Attribute) and c.func.attr == 'create_group' and c.args)
    grp_w |= set(M.const_str(c.args[0]) for f in ('_set_constants',) for c in M.calls(M.find_func(hcls, f))
                 if isinstance(c.func, ast.Attribute) and c.func.attr == 'create_group' and c.args)
    grp_w.discard(None)
    grp_r = set(k for k in str_subscripts(hl)) | set(k for k in str_subscripts(gpart, 'prop_array'))
    chk.decide(grp_r <= grp_w and {'solver_data', 'particles', 'arrays', 'constants'} <= grp_r, 'hdf5-keys', 'groups', node=hl, file=OUT,
               func='HDFOutput._load', detail_bad='reader opens groups %s, writer creates %s' % (sorted(grp_r), sorted(grp_w)),
               detail_ok=str(sorted(grp_r)))
    # attributes written per property: every record key (loop over attributes.items()) + 'stored'
    wattrs = set(str_subscripts(sp, 'prop.attrs'))
    allrec = any(isinstance(l, ast.For) and 'attributes.items()' in U(l.iter) and
                 any(isinstance(a, ast.Assign) and U(a.targets[0]) == 'prop.attrs[attname]' for a in ast.walk(l)) for l in ast.walk(sp))
    src_attr = [l for l in ast.walk(sp) if isinstance(l, ast.For) and "pdata['properties'].items()" in U(l.iter)]
    chk.decide(allrec and bool(src_attr) and 'stored' in wattrs, 'hdf5-keys', 'writer-persists-record', node=sp, file=OUT,
               func='HDFOutput._set_properties', detail_bad='hdf5 writer does not store every key of the property record plus the stored flag',
               detail_ok='every record key + stored')
    written = rkeys | {'stored'} if allrec else wattrs
    rattrs = set(str_subscripts(gpart, 'h5obj.attrs'))
    chk.decide(rattrs <= written and {'name', 'type', 'default', 'stride', 'stored'} <= rattrs, 'hdf5-keys', 'reader-attributes', node=gpart,
               file=OUT, func='HDFOutput._get_particles',
               detail_bad='reader uses attributes %s, writer stores %s (name,type,default,stride,stored all required)' % (sorted(rattrs), sorted(written)),
               detail_ok=str(sorted(rattrs)))
    # stored flag semantics: True iff data present
    sto_t = [a for a in ast.walk(sp) if isinstance(a, ast.Assign) and U(a.targets[0]) == "prop.attrs['stored']"]
    ok = len(sto_t) == 2
    if ok:
        for a in sto_t:
            br = M.enclosing(a, (ast.If,))
            in_body = any(a is x for b in br.body for x in ast.walk(b))
            ok = ok and U(br.test) == 'propname in data' and (U(a.value) == 'True') == in_body
    chk.decide(ok, 'hdf5-keys', 'stored-flag', node=sp, file=OUT, func='HDFOutput._set_properties',
               detail_bad='stored flag does not mean "data for this property was written"', detail_ok='True iff propname in data')
    # every property is re-created with its type, default and stride, stored or not: the keywords that reach add_property on *every* path
    # (explicit keywords, or the keys of a ** dictionary that were put in by statements dominating the call)
    adds = [c for c in M.calls(gpart) if isinstance(c.func, ast.Attribute) and c.func.attr == 'add_property']
    chk.floor('add_property calls in hdf5 reader', len(adds), 1)
    M.set_parents(gpart)
    gg = C.build_cfg(gpart)

    def stmt_of(n):
        while not isinstance(n, ast.stmt):
            n = n.parent
        return n

    def guaranteed(c):
        keys = dict((k.arg, U(k.value)) for k in c.keywords if k.arg is not None)
        cn = gg.node_of(stmt_of(c))
        for k in c.keywords:
            if k.arg is None and isinstance(k.value, ast.Name):
                dn = k.value.id
                for st in ast.walk(gpart):
                    sn = gg.node_of(st) if isinstance(st, ast.stmt) else None
                    if sn is None or cn is None or not gg.dominates(sn, cn) or sn == cn:
                        continue
                    if isinstance(st, ast.Assign) and U(st.targets[0]) == dn:
                        if isinstance(st.value, ast.Call) and M.call_name(st.value) == 'dict':
                            keys.update((kk.arg, U(kk.value)) for kk in st.value.keywords if kk.arg)
                        elif isinstance(st.value, ast.Dict):
                            keys.update((M.const_str(kk), U(vv)) for kk, vv in zip(st.value.keys, st.value.values) if kk is not None)
                    elif isinstance(st, ast.Assign) and isinstance(st.targets[0], ast.Subscript) and U(st.targets[0].value) == dn:
                        keys[M.const_str(st.targets[0].slice)] = U(st.value)
                    elif isinstance(st, ast.Expr) and isinstance(st.value, ast.Call) and M.call_name(st.value) == dn + '.update':
                        keys.update((kk.arg, U(kk.value)) for kk in st.value.keywords if kk.arg)
        return keys
    for i, c in enumerate(adds):
        keys = guaranteed(c)
        need = {'type', 'default', 'stride'}
        chk.decide(need <= set(keys), 'hdf5-reader-branches-agree', 'add_property#%d' % i, node=c, file=OUT, func='HDFOutput._get_particles',
                   detail_bad='a property is re-created without %s on some path (keywords reaching the call on every path: %s): a property that was not written - or any property - '
                              'comes back with the default type / default value / stride 1' % (sorted(need - set(keys)), sorted(keys)),
                   detail_ok='name, ' + ', '.join(sorted(keys)))
    # attribute values flow from the attribute of the same name
    for nm in ('default', 'stride'):
        d = [a for a in ast.walk(gpart) if isinstance(a, ast.Assign) and U(a.targets[0]) == nm]
        if not d:
            # passed inline: the value of the keyword itself
            vals_ = [guaranteed(c).get(nm) for c in adds]
            ok = all(v is not None and ("'%s'" % nm) in v and 'h5obj.attrs' in v for v in vals_)
            chk.decide(ok, 'hdf5-keys', 'reader-value:' + nm, node=gpart, file=OUT, func='HDFOutput._get_particles',
                       detail_bad='%s is not read from attribute %r' % (nm, nm), detail_ok=str(vals_))
            continue
        ok = bool(d) and ("'%s'" % nm) in U(d[0].value) and 'h5obj.attrs' in U(d[0].value)
        chk.decide(ok, 'hdf5-keys', 'reader-value:' + nm, node=d[0] if d else gpart, file=OUT, func='HDFOutput._get_particles',
                   detail_bad='%s is not read from attribute %r' % (nm, nm), detail_ok=U(d[0].value) if d else '')
    # per-array keys persisted / restored by hdf5
    wsrc = ' '.join(U(M.find_func(hcls, f)) for f in ('_dump', '_set_constants', '_set_properties') +
                    (('_set_output_arrays',) if M.find_func(hcls, '_set_output_arrays', required=False) else ()))
    rsrc = U(gpart)
    for k in ROUND_TRIP_ARRAY_KEYS:
        w = ("pdata['%s']" % k) in wsrc or ("pdata.get('%s'" % k) in wsrc
        if k == 'properties':
            r = 'add_property' in rsrc
        elif k == 'constants':
            r = "constants=constants" in rsrc
        else:
            r = ("attrs['%s']" % k) in rsrc and 'set_output_arrays' in rsrc
        chk.decide(w and r, 'hdf5-keys', 'array-record:' + k, node=hd if not w else gpart, file=OUT,
                   func='HDFOutput._dump' if not w else 'HDFOutput._get_particles',
                   detail_bad='per-array key %s is %s by the hdf5 back end: it cannot round-trip (npz persists the whole record)' % (
                       k, 'not persisted' if not w else 'persisted but not restored'),
                   detail_ok='persisted and restored')
    # solver data
    ssd, gsd = M.find_func(hcls, '_set_solver_data'), M.find_func(hcls, '_get_solver_data')
    ok = 'self.solver_data.items()' in U(ssd) and 'grp.attrs[name] = data' in U(ssd) and 'grp.attrs.items()' in U(gsd)
    chk.decide(ok, 'hdf5-keys', 'solver-data', node=ssd, file=OUT, func='HDFOutput._set_solver_data',
               detail_bad='solver data is not stored/restored key by key', detail_ok='attrs[name] = data / attrs.items()')

    # what is read back is the attribute value itself: the reader must not convert it (a one-element list or array is not a scalar)
    M.set_parents(gsd)
    for lp in [l for l in ast.walk(gsd) if isinstance(l, ast.For) and 'attrs.items()' in U(l.iter)]:
        tv = lp.target.elts[1].id if isinstance(lp.target, ast.Tuple) and len(lp.target.elts) == 2 and isinstance(lp.target.elts[1], ast.Name) else None
        stores = [a for a in ast.walk(lp) if isinstance(a, ast.Assign) and isinstance(a.targets[0], ast.Subscript)]
        redef = [a for a in ast.walk(lp) if isinstance(a, (ast.Assign, ast.AugAssign)) and U(a.targets[0] if isinstance(a, ast.Assign) else a.target) == tv]
        ok = tv is not None and bool(stores) and all(isinstance(a.value, ast.Name) and a.value.id == tv for a in stores) and not redef
        chk.decide(ok, 'hdf5-keys', 'solver-data-unconverted', node=redef[0] if redef else lp, file=OUT, func='HDFOutput._get_solver_data',
                   detail_bad='the solver-data value read from the file is changed before it is returned (%s): sequences and arrays with one element come back as scalars'
                              % (U(redef[0]) if redef else [U(a.value) for a in stores]), detail_ok='solver_data[name] = value as read')
    # only_real output slices with get_number_of_particles(True): that must be the real count itself (rule shared with C06)
    import importlib.util
    spec6 = importlib.util.spec_from_file_location('c06mod', os.path.join(os.path.dirname(os.path.abspath(__file__)), 'c06.py'))
    c06 = importlib.util.module_from_spec(spec6)
    spec6.loader.exec_module(c06)
    c06.rule_count(chk, M.find_class(M.cy(PA), 'ParticleArray'))
    # ---- extension table
    lfn = M.find_func(out, 'load')
    tab_r = {}
    for i in ast.walk(lfn):
        if isinstance(i, ast.If) and isinstance(i.test, ast.Call) and (M.call_name(i.test) or '').endswith('.endswith'):
            ext = M.const_str(i.test.args[0])
            cl = [M.call_name(c) for c in M.calls(ast.Module(body=i.body, type_ignores=[])) if (M.call_name(c) or '').endswith('Output')]
            if cl:
                tab_r[ext] = cl[0]
    tab_w = {}
    for a in ast.walk(dfn):
        if isinstance(a, ast.Assign) and U(a.targets[0]) == 'file_format':
            ext = M.const_str(a.value)
            blk = a.parent
            sib = blk.body if any(a is x for x in blk.body) else blk.orelse
            cl = [M.call_name(c) for s in sib for c in M.calls(s) if (M.call_name(c) or '').endswith('Output')]
            if cl:
                tab_w[ext] = cl[0]
    chk.decide(tab_r == tab_w and set(tab_r) == {'npz', 'hdf5'}, 'extension-table', 'dump-vs-load', node=lfn, file=OUT, func='load',
               detail_bad='writer table %s vs reader table %s' % (tab_w, tab_r), detail_ok=str(tab_r))
    fin = [a for a in ast.walk(dfn) if isinstance(a, ast.Assign) and U(a.targets[0]) == 'filename' and 'file_format' in U(a.value)]
    g = C.build_cfg(dfn)
    dcall = [n.id for n in g.nodes if n.ast is not None and isinstance(n.ast, ast.Expr) and M.call_name(n.ast.value) == 'output.dump']
    ok = bool(fin) and bool(dcall) and g.dominates(g.node_of(fin[-1]), dcall[0]) and U(fin[-1].value).replace(' ', '') == "fname+'.'+file_format"
    chk.decide(ok, 'extension-table', 'file-named-after-chosen-writer', node=dfn, file=OUT, func='dump',
               detail_bad='the file name does not carry the extension of the writer actually used', detail_ok="fname + '.' + file_format")
    chk.unit('functions', ['get_particles_info', 'Output.dump', 'NumpyOutput._dump/_load', 'HDFOutput._dump/_load/_get_particles/_set_properties/'
                           '_set_constants/_get_constants/_set_solver_data/_get_solver_data', 'dump', 'load', 'ParticleArray.get_property_arrays/add_property'])
    # ---- the file name asked for is the file name written: the extension is split off as a suffix, never "stripped" as a set of characters
    dmp = M.find_func(out, 'dump')
    ld = M.find_func(out, 'load')
    nstrip = 0
    for fn_ in (dmp, ld):
        for c in M.calls(fn_):
            if isinstance(c.func, ast.Attribute) and c.func.attr in ('strip', 'rstrip', 'lstrip') and c.args:
                a0 = c.args[0]
                single = isinstance(a0, ast.Constant) and isinstance(a0.value, str) and len(a0.value) <= 1
                nstrip += 1
                chk.decide(single, 'file-name-kept', '%s:%s' % (fn_.name, U(c)[:50]), node=c, file=OUT, func=fn_.name,
                           detail_bad='`%s` removes every trailing character that occurs in the argument, not the suffix: `drop_15.hdf5` becomes `drop_1`, `setup.npz` becomes `setu` - '
                                      'the dump lands under another name (possibly over another step\'s file) and load() of the requested name fails' % U(c),
                           detail_ok='single character strip')
    base = [a for a in ast.walk(dmp) if isinstance(a, ast.Assign) and U(a.targets[0]) == 'fname']
    okb = bool(base) and all((isinstance(a.value, ast.Subscript) and isinstance(a.value.value, ast.Call) and M.call_name(a.value.value) == 'os.path.splitext' and
                              U(a.value.value.args[0]) == 'filename' and U(a.value.slice) == '0') or U(a.value) == 'filename' or
                             (isinstance(a.value, ast.Subscript) and isinstance(a.value.slice, ast.Slice) and U(a.value.value) == 'filename') for a in base)
    chk.decide(okb, 'file-name-kept', 'dump:base-name', node=base[0] if base else dmp, file=OUT, func='dump',
               detail_bad='the base name of the dump is %s: expected os.path.splitext(filename)[0], a slice of filename, or filename itself' % [U(a.value) for a in base],
               detail_ok='os.path.splitext(filename)[0] / filename')
    chk.assume('numpy.savez / h5py store and return the values they are given (value equality and dtypes are not decided)')


if __name__ == '__main__':
    run_check('C11', main)
