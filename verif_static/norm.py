"""Canonical forms for comparing a piece of code with the formula a rule expects, modulo spelling.

`canon(expr)` maps an ast expression to a hashable value such that expressions that differ only by commuted / re-associated /
distributed arithmetic, flipped comparisons (`a < b` vs `b > a`, `a - b > 0`), reordered `and` / `or` / `&` / `|` operands,
`abs` of a negated argument, redundant parentheses, `float(x)` wrappers and int-vs-float spelling of constants are equal.
Anything else (calls, attributes, subscripts) is an opaque atom keyed by its own canonical form.  `same(node, text)` parses
the reference text and compares canonical forms.  Used wherever a rule used to compare normalised source text.
"""
import ast
from fractions import Fraction

from .poly import Poly


def _atom(key):
    return Poly.var(key)


def _poly(e):
    """Poly over atoms, or None when e is not arithmetic"""
    if isinstance(e, ast.Constant) and isinstance(e.value, (int, float)) and not isinstance(e.value, bool):
        return Poly.const(Fraction(e.value).limit_denominator(10 ** 12))
    if isinstance(e, ast.UnaryOp) and isinstance(e.op, (ast.USub, ast.UAdd)):
        p = _poly(e.operand)
        return None if p is None else (-p if isinstance(e.op, ast.USub) else p)
    if isinstance(e, ast.BinOp) and isinstance(e.op, ast.Add) and _is_seq(e):
        parts = []

        def flat(x):
            if isinstance(x, ast.BinOp) and isinstance(x.op, ast.Add):
                flat(x.left)
                flat(x.right)
            else:
                parts.append(_text(canon(x)))
        flat(e)
        return _atom('seq(%s)' % ' ++ '.join(parts))       # concatenation keeps its order
    if isinstance(e, ast.BinOp) and isinstance(e.op, (ast.Add, ast.Sub, ast.Mult)):
        a, b = _poly(e.left), _poly(e.right)
        if a is None or b is None:
            return None
        return a + b if isinstance(e.op, ast.Add) else (a - b if isinstance(e.op, ast.Sub) else a * b)
    if isinstance(e, ast.BinOp) and isinstance(e.op, ast.Div):
        a, b = _poly(e.left), _poly(e.right)
        if a is None or b is None:
            return None
        if b.is_const() and not b.is_zero():
            return a * Poly.const(1 / b.const_value())
        return a * _atom('1/(%s)' % (_text(_orient(b)[1]),)) * Poly.const(_orient(b)[0])
    if isinstance(e, ast.BinOp) and isinstance(e.op, ast.Pow) and isinstance(e.right, ast.Constant) and isinstance(e.right.value, int) and 0 <= e.right.value <= 4:
        a = _poly(e.left)
        if a is None:
            return None
        r = Poly.const(1)
        for _ in range(e.right.value):
            r = r * a
        return r
    if isinstance(e, ast.Call) and isinstance(e.func, ast.Name) and e.func.id == 'float' and len(e.args) == 1 and not e.keywords:
        return _poly(e.args[0])
    if isinstance(e, ast.Call) and isinstance(e.func, ast.Name) and e.func.id in ('abs', 'fabs') and len(e.args) == 1:
        a = _poly(e.args[0])
        if a is not None:
            s, p = _orient(a)
            return _atom('abs(%s)' % _text(p))
    if isinstance(e, (ast.Compare, ast.BoolOp)) or (isinstance(e, ast.UnaryOp) and isinstance(e.op, ast.Not)):
        return None
    return _atom(_text(canon(e, arithmetic=False)))


def _is_seq(e):
    if isinstance(e, ast.BinOp) and isinstance(e.op, ast.Add):
        return _is_seq(e.left) or _is_seq(e.right)
    return isinstance(e, (ast.List, ast.Tuple, ast.ListComp, ast.JoinedStr)) or (isinstance(e, ast.Constant) and isinstance(e.value, str))


def _orient(p):
    if p.is_zero():
        return 1, p
    lead = sorted(p.t.items(), key=lambda kv: kv[0])[0][1]
    return (-1, -p) if lead < 0 else (1, p)


def _text(c):
    if isinstance(c, Poly):
        return str(c)
    return repr(c) if not isinstance(c, str) else c


def canon(e, arithmetic=True):
    if isinstance(e, str):
        e = ast.parse(e.strip(), mode='eval').body
    if isinstance(e, ast.Expr):
        e = e.value
    if arithmetic and isinstance(e, (ast.BinOp, ast.UnaryOp, ast.Constant, ast.Call)) and not (isinstance(e, ast.BinOp) and isinstance(e.op, (ast.BitAnd, ast.BitOr))) \
            and not (isinstance(e, ast.UnaryOp) and isinstance(e.op, ast.Not)):
        p = _poly(e)
        if p is not None:
            return ('poly', str(p))
    if isinstance(e, ast.Compare) and len(e.ops) == 1:
        op = e.ops[0]
        a, b = _poly(e.left), _poly(e.comparators[0])
        if a is not None and b is not None and isinstance(op, (ast.Lt, ast.LtE, ast.Gt, ast.GtE, ast.Eq, ast.NotEq)):
            d = a - b
            name = type(op).__name__
            if isinstance(op, (ast.Lt, ast.LtE)):
                d, name = -d, {'Lt': 'Gt', 'LtE': 'GtE'}[name]
            if isinstance(op, (ast.Eq, ast.NotEq)):
                d = _orient(d)[1]
            return ('cmp', name, str(d))
        return ('cmp', type(op).__name__, _text(canon(e.left)), _text(canon(e.comparators[0])))
    if isinstance(e, ast.BoolOp):
        return ('and' if isinstance(e.op, ast.And) else 'or', tuple(sorted(_text(canon(v)) for v in e.values)))
    if isinstance(e, ast.BinOp) and isinstance(e.op, (ast.BitAnd, ast.BitOr)):
        items = []

        def flat(x):
            if isinstance(x, ast.BinOp) and type(x.op) is type(e.op):
                flat(x.left)
                flat(x.right)
            else:
                items.append(_text(canon(x)))
        flat(e)
        return ('and' if isinstance(e.op, ast.BitAnd) else 'or', tuple(sorted(items)))
    if isinstance(e, ast.UnaryOp) and isinstance(e.op, ast.Not):
        return ('not', _text(canon(e.operand)))
    if isinstance(e, ast.Call) and isinstance(e.func, ast.Name) and e.func.id in ('max', 'min', 'fmax', 'fmin') and not e.keywords:
        return ('call', e.func.id, tuple(sorted(_text(canon(a)) for a in e.args)), ())
    if isinstance(e, ast.Call):
        return ('call', _text(canon(e.func, arithmetic=False)), tuple(_text(canon(a)) for a in e.args), tuple(sorted((k.arg or '**', _text(canon(k.value))) for k in e.keywords)))
    if isinstance(e, ast.Attribute):
        return '%s.%s' % (_text(canon(e.value, arithmetic=False)), e.attr)
    if isinstance(e, ast.Subscript):
        return '%s[%s]' % (_text(canon(e.value, arithmetic=False)), _text(canon(e.slice)))
    if isinstance(e, ast.Name):
        return e.id
    if isinstance(e, ast.Constant):
        return repr(e.value)
    if isinstance(e, (ast.Tuple, ast.List)):
        return (type(e).__name__, tuple(_text(canon(x)) for x in e.elts))
    if isinstance(e, ast.IfExp):
        return ('ifexp', _text(canon(e.test)), _text(canon(e.body)), _text(canon(e.orelse)))
    return ast.unparse(e).replace(' ', '')


def same(node, *texts):
    """node (ast expression) equals one of the reference spellings modulo the rewrites above"""
    if node is None:
        return False
    try:
        c = canon(node)
    except Exception:
        return False
    return any(c == canon(t) for t in texts)


def same_stmt(node, text):
    """`target = value` / `target op= value` statements"""
    ref = ast.parse(text.strip()).body[0]
    if type(node) is not type(ref):
        return False
    if isinstance(node, ast.Assign):
        return len(node.targets) == 1 and canon(node.targets[0], arithmetic=False) == canon(ref.targets[0], arithmetic=False) and canon(node.value) == canon(ref.value)
    if isinstance(node, ast.AugAssign):
        return type(node.op) is type(ref.op) and canon(node.target, arithmetic=False) == canon(ref.target, arithmetic=False) and canon(node.value) == canon(ref.value)
    if isinstance(node, ast.Expr):
        return canon(node.value) == canon(ref.value)
    return ast.unparse(node).replace(' ', '') == ast.unparse(ref).replace(' ', '')


def local_defs(stmts):
    """name -> value for the simple (possibly tuple-unpacking) assignments of a statement list; names assigned more than once are dropped"""
    defs, multi = {}, set()
    for s in stmts:
        for a in ast.walk(s):
            if isinstance(a, ast.AnnAssign) and a.value is not None and isinstance(a.target, ast.Name):
                # typed declarations with a value (cdef T x = e in the lowered Cython sources)
                if a.target.id in defs:
                    multi.add(a.target.id)
                defs[a.target.id] = a.value
                continue
            if not isinstance(a, ast.Assign) or len(a.targets) != 1:
                continue
            t, v = a.targets[0], a.value
            pairs = []
            if isinstance(t, ast.Name):
                pairs = [(t.id, v)]
            elif isinstance(t, ast.Tuple) and isinstance(v, ast.Tuple) and len(t.elts) == len(v.elts) and all(isinstance(x, ast.Name) for x in t.elts):
                pairs = [(x.id, y) for x, y in zip(t.elts, v.elts)]
            for n, val in pairs:
                if n in defs:
                    multi.add(n)
                defs[n] = val
    for n in multi:
        defs.pop(n, None)
    return defs


def clone(n):
    """a copy of a syntax (sub)tree that follows the grammar's fields only - copy.deepcopy also follows the `parent` links some trees carry and copies the whole module"""
    if isinstance(n, list):
        return [clone(x) for x in n]
    if not isinstance(n, ast.AST):
        return n
    new = n.__class__()
    for f in n._fields:
        if hasattr(n, f):
            setattr(new, f, clone(getattr(n, f)))
    for a in ('lineno', 'col_offset', 'end_lineno', 'end_col_offset', 'cy_argtypes', 'cy_rettype', 'src_lineno', 'inlined_from'):
        if hasattr(n, a):
            setattr(new, a, getattr(n, a))
    return new


def inline(expr, defs, depth=8):
    """expr with local names replaced (recursively) by their definitions"""
    import copy

    class Sub(ast.NodeTransformer):
        def visit_Name(self, n):
            if n.id in defs and depth > 0:
                return inline(defs[n.id], defs, depth - 1)
            return n
    return Sub().visit(clone(expr))
