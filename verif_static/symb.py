"""E3 - value numbering with algebraic normal forms and signed renamings.

A function body is abstractly evaluated (if-conversion, small constant loops unrolled) into polynomials over hash-consed
atoms.  Atoms are structured, so a renaming of the inputs can be pushed through them:

  ('var', name)                 an input (array element, precomputed symbol, attribute)
  ('inv', P)                    1 / P          with P sign-normalised:  inv(-P) = -inv(P)
  ('fn', f, (P1, ...))          uninterpreted / special function: abs is even, sqrt(x)^2 = x, max/min arguments sorted,
                                min(a, b) = -max(-a, -b)
  ('ind', P)                    indicator [P > 0], P sign-normalised: [-P > 0] = 1 - [P > 0] (ties ignored); ind^2 = ind

No path is enumerated and no solver is called; a budget on the number of monomials turns blow-ups into ``Budget``
(reported as UNDECIDED by the callers, never as a violation).
"""
import ast
from fractions import Fraction

from .poly import Poly


class Budget(Exception):
    pass


class Unsupported(Exception):
    pass


MAX_TERMS = 60000


class Ctx(object):
    def __init__(self, max_terms=MAX_TERMS, seconds=None):
        self.atoms = {}      # key string -> structure
        self.max_terms = max_terms
        import time
        self.deadline = (time.process_time() + seconds) if seconds else None
        self.defs = {}       # canonical body text -> name of its definition atom
        self._fp = {}
        self.alias = {}      # definition atom -> +-(older definition atom) proved equal to it
        self.alias_forms = None   # optional: candidate images of an older definition under the renaming being applied (default +-)
        self.positive = set()   # atoms known to be > 0 (sqrt may pull their even powers out)
        self.pos_atoms = set()  # inputs known to be > 0: used only to fold indicators whose argument has an evident sign
        self._pos = {}

    # -- atoms ---------------------------------------------------------------
    def name_of(self, struct):
        k = self.key(struct)
        self.atoms.setdefault(k, struct)
        return k

    def key(self, s):
        if s[0] == 'var':
            return s[1]
        if s[0] == 'inv':
            return 'INV{%s}' % s[1]
        if s[0] == 'fn':
            return '%s{%s}' % (s[1].upper(), ';'.join(str(a) for a in s[2]))
        if s[0] == 'ind':
            return 'IND{%s}' % s[1]
        if s[0] == 'def':
            return s[1]
        raise ValueError(s)

    def var(self, name):
        return Poly.var(self.name_of(('var', name)))

    def check(self, p):
        if len(p.t) > self.max_terms:
            raise Budget('polynomial with %d terms' % len(p.t))
        if self.deadline is not None:
            import time
            if time.process_time() > self.deadline:
                raise Budget('time budget exhausted')
        return p

    # -- normalisation -------------------------------------------------------
    def orient(self, p):
        """(sign, p+) with p = sign * p+ and p+ canonically oriented"""
        if p.is_zero():
            return 1, p
        lead = sorted(p.t.items(), key=lambda kv: (kv[0]))[0][1]
        if lead < 0:
            return -1, -p
        return 1, p

    def expand_all(self, p):
        while any(self.is_def(a) for a in p.atoms()):
            p = self.expand(p)
        return p

    def combine_pows(self, p):
        """b**e1 * b**e2 -> b**(e1+e2) (b**n expanded when the total exponent is an integer)"""
        if not any(a.startswith(('POW{', 'INV{POW{')) for a in p.atoms()):
            return p
        out = Poly()
        touched = False
        for mono, c in p.t.items():
            groups = {}
            rest = []
            for a, e in mono:
                st = self.atoms.get(a)
                if st and st[0] == 'fn' and st[1] == 'pow' and len(st[2]) == 2:
                    groups.setdefault(str(st[2][0]), [st[2][0], Poly()])[1] += st[2][1] * Poly.const(e)
                elif st and st[0] == 'inv' and len(st[1].t) == 1 and list(st[1].t.values())[0] == 1 and len(list(st[1].t)[0]) == 1 and \
                        self.atoms.get(list(st[1].t)[0][0][0], ('',))[0:2] == ('fn', 'pow'):
                    (pa, pe), = list(st[1].t)[0]
                    pst = self.atoms[pa]
                    groups.setdefault(str(pst[2][0]), [pst[2][0], Poly()])[1] -= pst[2][1] * Poly.const(e * pe)
                else:
                    rest.append((a, e))
            npow = sum(1 for a, e in mono if a.startswith(('POW{', 'INV{POW{')))
            term = Poly({tuple(sorted(rest)): c})
            changed = False
            exps = dict((key, self.simplify_basic(self.expand_all(ex))) for key, (base, ex) in groups.items())
            if npow == len(groups) and not any(x.is_const() and x.const_value().denominator == 1 for x in exps.values()):
                out = out + Poly({mono: c})
                continue
            for key, (base, ex) in groups.items():
                exx = exps[key]
                if exx.is_const() and exx.const_value().denominator == 1:
                    n = int(exx.const_value())
                    f = base if n >= 0 else self.inv(base)
                    for _ in range(abs(n)):
                        term = term * f
                    changed = True
                else:
                    term = term * self.fn('pow', [base, ex if exx.is_const() is False else exx])
            if changed or npow > len(groups):
                touched = True
            out = out + term
        return out if touched else p

    def simplify(self, p):
        r = self.simplify_basic(p)
        r2 = self.combine_pows(r)
        if r2 is not r:
            return self.simplify_basic(r2)
        return r

    def simplify_basic(self, p):
        """ind^k -> ind; x^i * INV{x}^j cancellation for single-atom inverses; SQRT{x}^2 -> x"""
        out = {}
        extra = Poly()
        changed = False
        for mono, c in p.t.items():
            d = dict(mono)
            for a in list(d):
                if a.startswith('IND{') and d[a] > 1:
                    d[a] = 1
                    changed = True
            for a in list(d):
                if a.startswith('INV{') and a in d:
                    inner = a[4:-1]
                    if inner in d:
                        k = min(d[a], d[inner])
                        d[a] -= k
                        d[inner] -= k
                        changed = True
            mult = None
            for a in list(d):
                if a.startswith('SQRT{') and d[a] >= 2:
                    st = self.atoms.get(a)
                    if st is not None:
                        k = d[a] // 2
                        d[a] -= 2 * k
                        mult = (st[2][0] ** k) if mult is None else mult * (st[2][0] ** k)
                        changed = True
            key = tuple(sorted((a, e) for a, e in d.items() if e))
            if mult is not None:
                extra = extra + Poly({key: c}) * mult
            else:
                out[key] = out.get(key, 0) + c
        r = Poly(out) + extra
        if changed and not extra.is_zero():
            return self.simplify_basic(r)
        return self.check(r)

    # -- positive content: factors known to be > 0 move through abs / max / sqrt / [.>0] / reciprocals ----
    def pos_content(self, polys, even=False):
        if not self.positive:
            return {}
        cont = None
        for p in polys:
            for mono in p.t:
                d = dict(mono)
                cur = dict((a, d.get(a, 0) - d.get('INV{%s}' % a, 0)) for a in self.positive)
                cont = cur if cont is None else dict((a, min(cont[a], cur[a])) for a in cont)
        if cont is None:
            return {}
        if even:
            cont = dict((a, e - (e % 2)) for a, e in cont.items())
        return dict((a, e) for a, e in cont.items() if e)

    def pos_mono(self, cont, scale=1):
        r = Poly.const(1)
        for a, e in sorted(cont.items()):
            e = e * scale
            f = Poly.var(a) if e > 0 else self._inv_atom(Poly.var(a))
            for _ in range(abs(int(e))):
                r = r * f
        return r

    def strip_content(self, p, cont):
        return self.simplify(p * self.pos_mono(cont, -1)) if cont else p

    def mul(self, a, b):
        if len(a.t) * len(b.t) > self.max_terms * 4:
            raise Budget('product of %d x %d terms' % (len(a.t), len(b.t)))
        return self.simplify(a * b)

    def inv(self, p):
        if p.is_zero():
            raise Unsupported('division by zero polynomial')
        if p.is_const():
            return Poly.const(1 / p.const_value())
        if len(p.t) == 1:
            (mono, c), = p.t.items()
            r = Poly.const(1 / c)
            for a, e in mono:
                if a.startswith('INV{'):
                    r = r * (Poly.var(a[4:-1]) if a[4:-1] in self.atoms else self._inv_atom(Poly.var(a))) ** e
                else:
                    r = r * self._inv_atom(Poly.var(a)) ** e
            return self.simplify(r)
        cont = self.pos_content([p])
        if cont:
            return self.simplify(self.inv(self.strip_content(p, cont)) * self.pos_mono(cont, -1))
        s, pp = self.orient(p)
        # pull out a constant factor so that k*p and p share one atom
        lead = sorted(pp.t.items(), key=lambda kv: kv[0])[0][1]
        pn = pp * Poly.const(1 / lead)
        return self._inv_atom(pn) * Poly.const(Fraction(s) / lead)

    def _inv_atom(self, p):
        return Poly.var(self.name_of(('inv', p)))

    def fn(self, f, args):
        if f == 'abs' or f == 'fabs':
            p = args[0]
            if p.is_const():
                return Poly.const(abs(p.const_value()))
            cont = self.pos_content([p])
            if cont:
                return self.simplify(self.fn('abs', [self.strip_content(p, cont)]) * self.pos_mono(cont))
            s, pp = self.orient(p)
            lead = sorted(pp.t.items(), key=lambda kv: kv[0])[0][1]
            pn = pp * Poly.const(1 / lead)
            return Poly.var(self.name_of(('fn', 'abs', (pn,)))) * Poly.const(lead)
        if f == 'sqrt':
            p = args[0]
            if p.is_const() and p.const_value() >= 0:
                v = p.const_value()
                import math
                r = Fraction(math.isqrt(v.numerator), 1) / Fraction(math.isqrt(v.denominator), 1) if v.denominator else None
                if r is not None and r * r == v:
                    return Poly.const(r)
            cont = self.pos_content([p], even=True)
            if cont:
                return self.simplify(self.fn('sqrt', [self.strip_content(p, cont)]) * self.pos_mono(dict((a, e // 2) for a, e in cont.items())))
            return Poly.var(self.name_of(('fn', 'sqrt', (p,))))
        if f in ('max', 'fmax'):
            if len(args) == 2 and args[0] == args[1]:
                return args[0]
            if all(a.is_const() for a in args):
                return Poly.const(max(a.const_value() for a in args))
            cont = self.pos_content([a for a in args if not a.is_zero()])
            if cont:
                return self.simplify(self.fn('max', [self.strip_content(a, cont) for a in args]) * self.pos_mono(cont))
            return Poly.var(self.name_of(('fn', 'max', tuple(sorted(args, key=str)))))
        if f in ('min', 'fmin'):
            neg = [-a for a in args]
            return -self.fn('max', neg)
        if f == 'pow' and len(args) == 2 and args[1].is_const() and args[1].const_value().denominator == 1 and 0 <= args[1].const_value() <= 6:
            r = Poly.const(1)
            for _ in range(int(args[1].const_value())):
                r = self.mul(r, args[0])
            return r
        if f == 'pow' and len(args) == 2 and args[0] == Poly.const(1):
            return Poly.const(1)
        if f == 'pow' and len(args) == 2 and not args[1].is_const():
            # x**(-e) = (1/x)**e = 1/(x**e): one atom for the four spellings
            base, ex = args
            flip = False
            sgn, exo = self.orient(ex)
            if sgn < 0:
                ex, flip = exo, not flip
            if len(base.t) == 1:
                rec = self.inv(base)
                if len(rec.t) == 1 and str(rec) < str(base):
                    base, flip = rec, not flip
            atom = Poly.var(self.name_of(('fn', 'pow', (base, ex))))
            return self.inv(atom) if flip else atom
        return Poly.var(self.name_of(('fn', f, tuple(args))))

    # -- evident signs ----------------------------------------------------------
    def atom_pos(self, a):
        """True when the atom is positive for all admissible inputs (zero on a null set at most)"""
        if a in self._pos:
            return self._pos[a]
        self._pos[a] = False
        st = self.atoms.get(a, ('var', a))
        if st[0] == 'var':
            r = st[1] in self.pos_atoms or st[1] in self.positive
        elif st[0] == 'inv':
            r = self.is_pos(st[1])
        elif st[0] == 'def':
            r = self.is_pos(st[2])
        elif st[0] == 'ind':
            r = False
        elif st[1] in ('sqrt', 'abs'):
            r = True
        elif st[1] == 'max':
            r = any(self.is_pos(x) for x in st[2])
        elif st[1] == 'pow':
            r = self.is_pos(st[2][0])
        else:
            r = False
        self._pos[a] = r
        return r

    def is_pos(self, p):
        """every term has a positive coefficient and only positive atoms (or even powers)"""
        if p.is_zero():
            return False
        for mono, c in p.t.items():
            if c <= 0:
                return False
            for a, e in mono:
                if e % 2 and not self.atom_pos(a):
                    return False
                if not e % 2 and a.startswith('IND{'):
                    return False
        return True

    def ind(self, p):
        """[p > 0]"""
        if p.is_const():
            return Poly.const(1 if p.const_value() > 0 else 0)
        if self.pos_atoms:
            if self.is_pos(p):
                return Poly.const(1)
            if self.is_pos(-p):
                return Poly.const(0)
        cont = self.pos_content([p])
        if cont:
            return self.ind(self.strip_content(p, cont))
        s, pp = self.orient(p)
        lead = sorted(pp.t.items(), key=lambda kv: kv[0])[0][1]
        pn = pp * Poly.const(1 / lead)
        a = Poly.var(self.name_of(('ind', pn)))
        return a if s > 0 else Poly.const(1) - a

    # -- definition atoms (local value numbering) ---------------------------
    def define(self, p):
        """name a multi-term value: D_k stands for its canonically oriented, monic body; equal bodies (up to sign and a
        constant factor) share one atom, so a renaming that maps one temporary onto +-another is found by hash-consing"""
        if len(p.t) <= 1:
            return p
        s, pp = self.orient(p)
        lead = sorted(pp.t.items(), key=lambda kv: kv[0])[0][1]
        pn = pp * Poly.const(1 / lead)
        k = str(pn)
        nm = self.defs.get(k)
        if nm is None:
            nm = 'D%03d' % len(self.defs)
            self.defs[k] = nm
            self.atoms[nm] = ('def', nm, pn)
        return Poly.var(nm) * Poly.const(Fraction(s) * lead)

    # -- numeric fingerprints: candidate selection only, never a verdict ------
    def fp_atom(self, a, salt):
        key = (a, salt)
        if key in self._fp:
            return self._fp[key]
        import hashlib, cmath
        st = self.atoms.get(a, ('var', a))
        try:
            if st[0] == 'var':
                h = int(hashlib.sha1(('%s/%s' % (a, salt)).encode()).hexdigest()[:12], 16)
                u = (h % 1000003) / 1000003.0
                if salt < 2:
                    v = 0.6 + 1.3 * u
                elif st[1] in self.pos_atoms or st[1] in self.positive:
                    v = 10.0 ** (-1.5 + 3.0 * u)                      # witness search: positive inputs over three decades
                    if st[1] == 'gamma':
                        v = 1.05 + 1.9 * u
                else:
                    v = (1.0 if (h >> 20) % 2 else -1.0) * 10.0 ** (-1.0 + 1.7 * u)
            elif st[0] == 'inv':
                v = 1.0 / self.fp(st[1], salt)
            elif st[0] == 'def':
                v = self.fp(st[2], salt)
            elif st[0] == 'ind':
                v = 1.0 if complex(self.fp(st[1], salt)).real > 0 else 0.0
            else:
                args = [self.fp(x, salt) for x in st[2]]
                if st[1] == 'abs':
                    v = abs(args[0])
                elif st[1] == 'sqrt':
                    v = cmath.sqrt(args[0])
                elif st[1] == 'max':
                    v = max(args, key=lambda z: complex(z).real)
                elif st[1] == 'pow':
                    v = complex(args[0]) ** complex(args[1])
                elif st[1] == 'eq':
                    v = 0.0
                else:
                    h = int(hashlib.sha1(('%s/%s/%s' % (st[1], salt, ['%.9e' % x for x in args])).encode()).hexdigest()[:12], 16)
                    v = 0.6 + 1.3 * (h % 1000003) / 1000003.0
        except (ValueError, ZeroDivisionError, OverflowError, TypeError):
            v = None
        self._fp[key] = v
        return v

    def fp(self, p, salt=0):
        tot = 0.0
        for mono, c in p.t.items():
            term = complex(float(c))
            for a, e in mono:
                v = self.fp_atom(a, salt)
                if v is None:
                    raise ValueError('no fingerprint')
                term *= v ** e
            tot += term
        return tot

    def witness(self, residual, scale, tries=400):
        """an admissible sample point (all intermediate values real) at which the residual is clearly non-zero; None if none of `tries` points is one"""
        names = sorted(a for a, st in self.atoms.items() if st[0] == 'var')
        for salt in range(2, 2 + tries):
            try:
                r = complex(self.fp(residual, salt))
                sc = abs(complex(self.fp(scale, salt))) + 1e-300
            except (ValueError, ZeroDivisionError, OverflowError, TypeError):
                continue
            used = [k for k in self._fp if k[1] == salt]
            if any(abs(complex(self._fp[k]).imag) > 1e-12 * (1 + abs(complex(self._fp[k]))) for k in used if self._fp[k] is not None):
                continue
            if abs(r) > 1e-6 * sc:
                return dict((n, complex(self._fp[(n, salt)]).real) for n in names if (n, salt) in self._fp), abs(r) / sc
        return None

    def maybe_equal(self, a, b):
        """False only when two fingerprints tell a and b apart"""
        try:
            for salt in (0, 1):
                x, y = self.fp(a, salt), self.fp(b, salt)
                if abs(x - y) > 1e-7 * (abs(x) + abs(y) + 1e-30):
                    return False
        except (ValueError, ZeroDivisionError, OverflowError, TypeError):
            return True
        return True

    def is_def(self, a):
        return self.atoms.get(a, ('',))[0] == 'def'

    def expand(self, p, which=None):
        """replace definition atoms (all, or the given ones) by their bodies, one level"""
        m = dict((a, self.atoms[a][2]) for a in p.atoms() if self.is_def(a) and (which is None or a in which))
        if not m:
            return p
        out = Poly()
        for mono, c in p.t.items():
            term = Poly.const(c)
            for a, e in mono:
                f = m[a] if a in m else Poly.var(a)
                for _ in range(e):
                    term = self.mul(term, f)
            out = self.check(out + term)
        return self.simplify(out)

    def clear_denominators(self, e):
        """e * (product of the bodies of its reciprocal atoms): zero iff e is zero wherever e is defined"""
        while True:
            invs = [a for a in e.atoms() if a.startswith('INV{')]
            if not invs:
                return e
            a = sorted(invs, key=lambda x: (len(x), x))[-1]
            body = self.atoms[a][1]
            emax = max(dict(m).get(a, 0) for m in e.t)
            pw = {0: Poly.const(1)}
            for k in range(1, emax + 1):
                pw[k] = self.mul(pw[k - 1], body)
            out = Poly()
            for m, c in e.t.items():
                d = dict(m)
                k = d.pop(a, 0)
                out = self.check(out + Poly({tuple(sorted(d.items())): c}) * pw[emax - k])
            e = self.simplify(out)

    def quick_zero(self, e, seconds=3.0):
        """prove_zero under a small budget of its own (used while searching for equal temporaries: giving up only loses a shortcut)"""
        import time
        saved = self.deadline
        mine = time.process_time() + seconds
        self.deadline = mine if saved is None else min(saved, mine)
        try:
            return self.prove_zero(e)[0]
        except Budget:
            if saved is not None and time.process_time() > saved:
                raise
            return False
        finally:
            self.deadline = saved

    def prove_zero(self, e):
        """(True, 0) when e vanishes identically: simplification, then clearing denominators, then unfolding definition atoms
        latest first.  (False, residual) otherwise - the residual is over atoms that were treated as independent"""
        e = self.simplify(e)
        while True:
            if e.is_zero():
                return True, e
            e2 = self.clear_denominators(e)
            if e2.is_zero():
                return True, e2
            ds = [a for a in e2.atoms() if self.is_def(a)]
            if not ds:
                return False, e2
            e = self.expand(e2, set([max(ds)]))

    # -- differentiation ------------------------------------------------------
    def deriv(self, p, x, memo=None):
        """d p / d x for an input or state symbol x; indicators are piecewise constant, abs/max are not differentiated"""
        memo = {} if memo is None else memo
        out = Poly()
        for mono, c in p.t.items():
            for i, (a, e) in enumerate(mono):
                da = self._deriv_atom(a, x, memo)
                if da.is_zero():
                    continue
                rest = Poly({tuple(sorted([(b, f) for j, (b, f) in enumerate(mono) if j != i] + ([(a, e - 1)] if e > 1 else []))): c * e})
                out = self.check(out + self.mul(rest, da))
        return self.simplify(out)

    def _deriv_atom(self, a, x, memo):
        if a in memo:
            return memo[a]
        st = self.atoms.get(a, ('var', a))
        if st[0] == 'var':
            r = Poly.const(1 if st[1] == x else 0)
        elif st[0] == 'inv':
            d = self.deriv(st[1], x, memo)
            r = Poly() if d.is_zero() else -self.mul(self.mul(Poly.var(a), Poly.var(a)), d)
        elif st[0] == 'def':
            r = self.deriv(st[2], x, memo)
        elif st[0] == 'ind':
            r = Poly()
        elif st[0] == 'fn' and st[1] == 'sqrt':
            d = self.deriv(st[2][0], x, memo)
            r = Poly() if d.is_zero() else self.mul(d, self.inv(Poly.var(a) * Poly.const(2)))
        elif st[0] == 'fn' and st[1] == 'pow':
            base, ex = st[2]
            if not self.deriv(ex, x, memo).is_zero():
                raise Unsupported('derivative of a power with a varying exponent')
            d = self.deriv(base, x, memo)
            r = Poly() if d.is_zero() else self.mul(self.mul(self.mul(ex, Poly.var(a)), self.inv(base)), d)
        elif st[0] == 'fn':
            ds = [self.deriv(q, x, memo) for q in st[2]]
            if all(d.is_zero() for d in ds):
                r = Poly()
            else:
                raise Unsupported('derivative of %s' % st[1])
        else:
            raise Unsupported(str(st))
        memo[a] = r
        return r

    def ite(self, c, a, b):
        return self.simplify(b + self.mul(c, a - b))

    # -- renaming ------------------------------------------------------------
    def rename(self, p, sigma, memo=None):
        """apply a signed renaming of the input variables: sigma(name) -> Poly or None (identity)"""
        memo = {} if memo is None else memo
        out = Poly()
        for mono, c in p.t.items():
            term = Poly.const(c)
            for a, e in mono:
                term = self.mul(term, self._rename_atom(a, sigma, memo) ** e if e > 1 else self._rename_atom(a, sigma, memo))
            out = out + term
        return self.simplify(out)

    def _rename_atom(self, a, sigma, memo):
        if a in memo:
            return memo[a]
        st = self.atoms.get(a, ('var', a))
        if st[0] == 'var':
            r = sigma(st[1])
            r = Poly.var(a) if r is None else r
        elif st[0] == 'inv':
            r = self.inv(self.rename(st[1], sigma, memo))
        elif st[0] == 'fn':
            r = self.fn(st[1], [self.rename(x, sigma, memo) for x in st[2]])
        elif st[0] == 'ind':
            r = self.ind(self.rename(st[1], sigma, memo))
        elif st[0] == 'def':
            n0 = len(self.defs)
            body = self.rename(st[2], sigma, memo)
            r = self.define(body)
            if len(r.t) == 1 and list(r.t)[0] and list(r.t)[0][0][0] in self.alias:   # a proved identity between two values
                (mono, coef), = r.t.items()
                r = self.alias[mono[0][0]] * Poly.const(coef)
            elif len(self.defs) > n0 and len(r.t) == 1:
                # a new value: is it +-(an existing one)?  proved at this level, with the other temporaries opaque
                (mono, coef), = r.t.items()
                new = mono[0][0]
                for old in sorted(k for k in self.atoms if self.is_def(k) and k < new):
                    ob = Poly.var(old)
                    hit = None
                    for cand in (self.alias_forms(ob) if self.alias_forms else (ob, -ob)):
                        if self.maybe_equal(Poly.var(new), cand) and self.quick_zero(Poly.var(new) - cand):
                            hit = cand
                            break
                    if hit is not None:
                        self.alias[new] = hit
                        r = hit * Poly.const(coef)
                        break
        else:
            raise Unsupported(str(st))
        memo[a] = r
        return r


class Evaluator(object):
    """Abstract evaluation of a function body into Poly values."""

    def __init__(self, ctx, fn, inputs=None, helpers=None, unroll=8, define_terms=None):
        self.ctx = ctx
        self.define_terms = define_terms   # values with more terms than this become definition atoms
        self.chooser = None                # arm enumeration: decides the spine ifs instead of if-converting them
        self.spine = set()
        self.decisions = []
        self.fn = fn
        self.helpers = helpers or {}
        self.unroll = unroll
        self.env = {}
        self.returns = []      # (condition poly, value poly or tuple)
        self.breaks = []       # (condition poly, environment) of every break executed in the block being evaluated
        self.live = Poly.const(1)
        self.inputs = inputs

    def input_var(self, text):
        return self.ctx.var(text)

    # -- expressions ---------------------------------------------------------
    def ev(self, e):
        c = self.ctx
        if isinstance(e, ast.Constant):
            if isinstance(e.value, bool):
                return Poly.const(1 if e.value else 0)
            if isinstance(e.value, (int, float)):
                return Poly.const(Fraction(e.value).limit_denominator(10 ** 15))
            raise Unsupported('constant %r' % (e.value,))
        if isinstance(e, ast.Name):
            if e.id in self.env:
                return self.env[e.id]
            return self.input_var(e.id)
        if isinstance(e, ast.Attribute):
            return self.input_var(ast.unparse(e).replace(' ', ''))
        if isinstance(e, ast.Subscript):
            key = self.subkey(e)
            if key in self.env:
                return self.env[key]
            return self.input_var(key)
        if isinstance(e, ast.UnaryOp):
            if isinstance(e.op, ast.USub):
                return -self.ev(e.operand)
            if isinstance(e.op, ast.UAdd):
                return self.ev(e.operand)
            if isinstance(e.op, ast.Not):
                return Poly.const(1) - self.cond(e.operand)
        if isinstance(e, ast.BinOp):
            a, b = self.ev(e.left), self.ev(e.right)
            if isinstance(e.op, ast.Add):
                return c.check(a + b)
            if isinstance(e.op, ast.Sub):
                return c.check(a - b)
            if isinstance(e.op, ast.Mult):
                return c.mul(a, b)
            if isinstance(e.op, ast.Div):
                return c.mul(a, c.inv(b))
            if isinstance(e.op, ast.Pow):
                if b.is_const() and b.const_value().denominator == 1 and 0 <= b.const_value() <= 6:
                    r = Poly.const(1)
                    for _ in range(int(b.const_value())):
                        r = c.mul(r, a)
                    return r
                if b.is_const() and b.const_value() == Fraction(1, 2):
                    return c.fn('sqrt', [a])
                return c.fn('pow', [a, b])
            raise Unsupported('operator %s' % type(e.op).__name__)
        if isinstance(e, ast.Call):
            nm = ast.unparse(e.func).replace(' ', '')
            args = [self.ev(a) for a in e.args]
            short = nm.split('.')[-1]
            if short in ('abs', 'fabs', 'sqrt', 'max', 'min', 'fmax', 'fmin', 'pow'):
                return c.fn(short, args)
            if short == 'float' and len(args) == 1:
                return args[0]
            if nm in self.helpers and isinstance(self.helpers[nm], ast.FunctionDef):
                return self.inline(self.helpers[nm], args)
            return c.fn(nm, args)
        if isinstance(e, ast.IfExp):
            return c.ite(self.cond(e.test), self.ev(e.body), self.ev(e.orelse))
        if isinstance(e, (ast.Compare, ast.BoolOp)):
            return self.cond(e)
        raise Unsupported('expression %s' % type(e).__name__)

    def subkey(self, e):
        idx = e.slice
        try:
            iv = self.ev(idx)
            if iv.is_const():
                its = str(iv.const_value())
            else:
                its = ast.unparse(idx).replace(' ', '') if not any(isinstance(x, ast.Name) and x.id in self.env for x in ast.walk(idx)) else str(iv)
        except Unsupported:
            its = ast.unparse(idx).replace(' ', '')
        return '%s[%s]' % (ast.unparse(e.value).replace(' ', ''), its)

    def cond(self, t):
        c = self.ctx
        if isinstance(t, ast.BoolOp):
            vals = [self.cond(v) for v in t.values]
            r = vals[0]
            for v in vals[1:]:
                if isinstance(t.op, ast.And):
                    r = c.mul(r, v)
                else:
                    r = c.simplify(r + v - c.mul(r, v))
            return r
        if isinstance(t, ast.UnaryOp) and isinstance(t.op, ast.Not):
            return Poly.const(1) - self.cond(t.operand)
        if isinstance(t, ast.Compare) and len(t.ops) > 1:
            # a < b <= c is (a < b) and (b <= c)
            terms = [t.left] + list(t.comparators)
            return self.cond(ast.BoolOp(op=ast.And(), values=[ast.Compare(left=terms[i], ops=[t.ops[i]], comparators=[terms[i + 1]]) for i in range(len(t.ops))]))
        if isinstance(t, ast.Compare) and len(t.ops) == 1:
            a, b = self.ev(t.left), self.ev(t.comparators[0])
            op = t.ops[0]
            d = c.simplify(a - b)
            if d.is_const():
                v = d.const_value()
                r = {ast.Gt: v > 0, ast.GtE: v >= 0, ast.Lt: v < 0, ast.LtE: v <= 0, ast.Eq: v == 0, ast.NotEq: v != 0}.get(type(op))
                if r is not None:
                    return Poly.const(1 if r else 0)
            if isinstance(op, (ast.Gt, ast.GtE)):
                return c.ind(a - b)
            if isinstance(op, (ast.Lt, ast.LtE)):
                return c.ind(b - a)
            if isinstance(op, (ast.Eq, ast.NotEq)):
                eq = c.fn('eq', [a - b]) if not (a - b).is_const() else Poly.const(1 if (a - b).is_zero() else 0)
                return eq if isinstance(op, ast.Eq) else Poly.const(1) - eq
        if isinstance(t, ast.Constant):
            return Poly.const(1 if t.value else 0)
        # truthiness of a flag / number: [v > 0] (flags are booleans or non-negative switches)
        v = self.ev(t)
        return c.ind(v)

    # -- statements ----------------------------------------------------------
    def run(self):
        self.block(self.fn.body)
        return self

    def block(self, stmts):
        """returns True when every path through the block ends in a return"""
        for s in stmts:
            if self.stmt(s):
                return True
        return False

    def result_of_returns(self, pick):
        """sum over return sites of [path condition] * pick(value, env)"""
        tot = Poly()
        for live, val, env in self.returns:
            v = pick(val, env)
            if v is None:
                raise Unsupported('a return site lacks the requested value')
            tot = tot + self.ctx.mul(live, v)
        return self.ctx.simplify(tot)

    def assign(self, target, val):
        if self.define_terms is not None and isinstance(val, Poly) and len(val.t) > self.define_terms:
            val = self.ctx.define(val)
        if isinstance(target, ast.Name):
            self.env[target.id] = val
        elif isinstance(target, ast.Subscript):
            self.env[self.subkey(target)] = val
        elif isinstance(target, ast.Attribute):
            self.env[ast.unparse(target).replace(' ', '')] = val
        else:
            raise Unsupported('assignment target %s' % type(target).__name__)

    def stmt(self, s):
        c = self.ctx
        if isinstance(s, ast.Expr):
            if isinstance(s.value, ast.Constant):
                return
            if isinstance(s.value, ast.Call):
                nm = ast.unparse(s.value.func).replace(' ', '')
                if nm in ('printf', 'print'):
                    return
                if nm in self.helpers and not isinstance(self.helpers[nm], ast.FunctionDef):
                    return self.helpers[nm](self, s.value)
                raise Unsupported('call statement %s' % nm)
            return
        if isinstance(s, ast.Assign):
            if isinstance(s.value, ast.Call) and ast.unparse(s.value.func) == 'declare':
                return
            if isinstance(s.targets[0], ast.Tuple) and isinstance(s.value, ast.Tuple) and len(s.targets[0].elts) == len(s.value.elts):
                vals = [self.ev(v) for v in s.value.elts]
                for t, v in zip(s.targets[0].elts, vals):
                    self.assign(t, v)
                return
            v = self.ev(s.value)
            for t in s.targets:
                self.assign(t, v)
            return
        if isinstance(s, ast.AnnAssign):
            if s.value is not None:
                self.assign(s.target, self.ev(s.value))
            return
        if isinstance(s, ast.AugAssign):
            cur = self.ev(s.target)
            v = self.ev(s.value)
            if isinstance(s.op, ast.Add):
                r = c.check(cur + v)
            elif isinstance(s.op, ast.Sub):
                r = c.check(cur - v)
            elif isinstance(s.op, ast.Mult):
                r = c.mul(cur, v)
            elif isinstance(s.op, ast.Div):
                r = c.mul(cur, c.inv(v))
            else:
                raise Unsupported('augmented operator')
            return self.assign(s.target, r)
        if isinstance(s, ast.If) and self.chooser is not None and id(s) in self.spine:
            cnd = self.cond(s.test)
            if cnd.is_const():
                return self.block(s.body if cnd.const_value() != 0 else s.orelse)
            taken = self.chooser(len(self.decisions))
            self.decisions.append((s, cnd, taken))
            return self.block(s.body if taken else s.orelse)
        if isinstance(s, ast.If):
            cnd = self.cond(s.test)
            if cnd.is_const():
                return self.block(s.body if cnd.const_value() != 0 else s.orelse)
            base = dict(self.env)
            live0 = self.live
            self.live = c.mul(live0, cnd)
            r1 = self.block(s.body)
            e1 = self.env
            self.env = dict(base)
            self.live = c.mul(live0, Poly.const(1) - cnd)
            r2 = self.block(s.orelse)
            e2 = self.env
            self.live = live0
            if r1 and r2:
                return True
            if r1:
                self.env = e2
                self.live = c.mul(live0, Poly.const(1) - cnd)
                return False
            if r2:
                self.env = e1
                self.live = c.mul(live0, cnd)
                return False
            merged = {}
            for k in set(e1) | set(e2):
                a = e1.get(k)
                b = e2.get(k)
                if a is None:
                    a = self.default(k)
                if b is None:
                    b = self.default(k)
                merged[k] = a if a == b else c.ite(cnd, a, b)
            self.env = merged
            return
        if isinstance(s, ast.For):
            it = s.iter
            if isinstance(it, ast.Call) and ast.unparse(it.func) == 'range' and isinstance(s.target, ast.Name):
                bounds = [self.ev(a) for a in it.args]
                if all(b.is_const() and b.const_value().denominator == 1 for b in bounds):
                    vals = list(range(*[int(b.const_value()) for b in bounds]))
                    if len(vals) <= self.unroll:
                        if any(isinstance(x, (ast.Break, ast.Continue)) for x in ast.walk(s)):
                            raise Unsupported('break/continue in an unrolled loop')
                        for v in vals:
                            self.env[s.target.id] = Poly.const(v)
                            self.block(s.body)
                        return
            raise Unsupported('loop that cannot be unrolled')
        if isinstance(s, ast.Return):
            if s.value is None:
                val = None
            elif isinstance(s.value, ast.Tuple):
                val = tuple(self.ev(v) for v in s.value.elts)
            else:
                val = self.ev(s.value)
            self.returns.append((self.live, val, dict(self.env)))
            return True
        if isinstance(s, ast.Pass):
            return
        if isinstance(s, ast.Break):
            self.breaks.append((self.live, dict(self.env)))
            return True
        if isinstance(s, ast.While):
            raise Unsupported('while loop')
        raise Unsupported('statement %s' % type(s).__name__)

    def inline(self, fdef, args):
        """value of a call of a small pure helper: its body is evaluated with the actual arguments"""
        sub = Evaluator(self.ctx, fdef, helpers=self.helpers, unroll=self.unroll)
        names = [a.arg for a in fdef.args.args]
        for n, v in zip(names, args):
            sub.env[n] = v
        body = fdef.body
        if body and isinstance(body[0], ast.Expr) and isinstance(body[0].value, ast.Constant):
            body = body[1:]
        sub.block(body)
        return sub.result_of_returns(lambda val, env: val if not isinstance(val, tuple) else None)

    def default(self, key):
        """value of a name/element that one branch did not assign: its value on entry"""
        return self.input_var(key)


def spine_ifs(fn):
    """the case analysis of a function: if statements directly in its body, and the elif chains hanging off them"""
    out = set()

    def chain(n):
        out.add(id(n))
        if len(n.orelse) == 1 and isinstance(n.orelse[0], ast.If):
            chain(n.orelse[0])
    for st in fn.body:
        if isinstance(st, ast.If):
            chain(st)
    return out


def arms(make_evaluator, fn):
    """one evaluator per path through the case analysis (spine ifs decided, everything nested if-converted)"""
    spine = spine_ifs(fn)
    todo = [[]]
    out = []
    while todo:
        prefix = todo.pop()
        ev = make_evaluator()
        ev.spine = spine
        choices = []

        def chooser(i, prefix=prefix, choices=choices):
            c = prefix[i] if i < len(prefix) else True
            choices.append(c)
            return c
        ev.chooser = chooser
        ev.run()
        for i in range(len(prefix), len(choices)):
            todo.append(choices[:i] + [False])
        ev.path = tuple(choices)
        out.append(ev)
    out.sort(key=lambda e: [not c for c in e.path])
    return out
