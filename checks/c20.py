"""C20 - incomplete problems are rejected at set-up (static rules, DESIGN.md C20)."""
import ast
import textwrap
import os
import sys

sys.path.insert(0, os.path.dirname(os.path.dirname(os.path.abspath(__file__))))
from verif_static.core import run_check, AnalysisError  # noqa
from verif_static import model as M, tags as T, cfg as C, makotree as MT  # noqa

AE = 'pysph/sph/acceleration_eval.py'
EQ = 'pysph/sph/equation.py'
IH = 'pysph/sph/integrator_cython_helper.py'
AH = 'pysph/sph/acceleration_eval_cython_helper.py'
SC = 'pysph/sph/sph_compiler.py'
ITPL = 'pysph/sph/integrator_cython.mako'
HOOKS = ('initialize', 'initialize_pair', 'loop', 'loop_all', 'post_loop', 'reduce')


def make_evaluator(trees, extra_intrinsic=None):
    """Tag evaluator shared by the emit side and the check side.

    Tags: SIG (names from method signatures), PRE (names from the precomputed
    symbol table), S / D (source / destination array-name sets)."""
    funcs = {}
    meths = {}
    for t in trees:
        for n in t.body:
            if isinstance(n, ast.FunctionDef):
                funcs.setdefault(n.name, n)
            elif isinstance(n, ast.ClassDef):
                for m in n.body:
                    if isinstance(m, ast.FunctionDef):
                        meths.setdefault(m.name, []).append((n.name, m))

    def intrinsic(e, ev):
        if extra_intrinsic is not None:
            r = extra_intrinsic(e, ev)
            if r is not None:
                return r
        if isinstance(e, ast.Call):
            nm = M.call_name(e) or ''
            if nm.split('.')[-1] in ('getfullargspec', 'getargspec', 'signature'):
                return frozenset(['SIG'])
            if nm.split('.')[-1] == 'precomputed_symbols':
                return frozenset(['PRE'])
            if isinstance(e.func, ast.Attribute) and e.func.attr == 'startswith' and e.args:
                out = set(T.flat(ev(e.func.value)))
                for c in ast.walk(e.args[0]):
                    if isinstance(c, ast.Constant) and c.value == 's_':
                        out.add('S')
                    if isinstance(c, ast.Constant) and c.value == 'd_':
                        out.add('D')
                return frozenset(out)
        if isinstance(e, ast.Attribute):
            if e.attr == 'precomputed':
                # Group.precomputed is the dependency-closed, sorted selection (see _setup_precomputed)
                return frozenset(T.flat(ev(e.value)) | {'PRE', 'PRECLOSED'})
            if e.attr == 'pre_comp':
                return frozenset(T.flat(ev(e.value)) | {'PRE'})
            if e.attr == 'src_arrays':
                return frozenset(T.flat(ev(e.value)) | {'S'})
            if e.attr == 'dest_arrays':
                return frozenset(T.flat(ev(e.value)) | {'D'})
        return None

    def resolve(call, evalr):
        if isinstance(call.func, ast.Name) and call.func.id in funcs:
            return funcs[call.func.id], None
        if isinstance(call.func, ast.Attribute):
            cands = meths.get(call.func.attr, [])
            # prefer the base Group implementation; ambiguous otherwise
            names = set(c for c, m in cands)
            if len(cands) == 1:
                return cands[0][1], None
            for c, m in cands:
                if c == 'Group':
                    return m, None
        return None

    return T.Evaluator(intrinsic=intrinsic, resolve=resolve, max_depth=5)


def rule_validator_coverage(chk):
    ae = M.py(AE)
    eq = M.py(EQ)
    ev = make_evaluator([ae, eq])
    # ---- emit side: Group.get_array_names is what every pointer set-up iterates
    ah = M.py(AH)
    helper = M.find_class(ah, 'AccelerationEvalCythonHelper')
    emitters = []
    for name in ('get_dest_array_setup', 'get_src_array_setup', 'get_array_declarations'):
        fn = M.find_func(helper, name)
        uses = [c for c in M.calls(fn) if isinstance(c.func, ast.Attribute) and c.func.attr == 'get_array_names']
        if not uses:
            chk.undecided('emit-set-origin', name, node=fn, file=AH, func=name,
                          detail='pointer set-up no longer iterates Group.get_array_names(); emit set unknown')
        else:
            emitters.append(name)
            chk.holds('emit-set-origin', name, node=uses[0], file=AH, func=name,
                      detail='names emitted come from Group.get_array_names()')
    gan = M.find_method(eq, 'Group', 'get_array_names')
    emit, _ = ev.run_function(gan, [], selfval=T.EMPTY)
    if not isinstance(emit, T.TupleVal) or len(emit) != 2:
        raise AnalysisError('Group.get_array_names no longer returns a (src, dest) pair')
    emit_s = set(T.flat(emit[0])) & {'SIG', 'PRE', 'PRECLOSED'}
    emit_d = set(T.flat(emit[1])) & {'SIG', 'PRE', 'PRECLOSED'}
    chk.unit('emit tags', {'src': sorted(T.flat(emit[0])), 'dest': sorted(T.flat(emit[1]))})
    if 'S' not in T.flat(emit[0]) or 'D' not in T.flat(emit[1]):
        raise AnalysisError('cannot establish S/D provenance of Group.get_array_names')
    # ---- check side
    fn = M.find_func(ae, 'check_equation_array_properties')
    _, env = ev.run_function(fn, [T.EMPTY, T.EMPTY])
    comparers = {}
    called = set(c.func.id for c in M.calls(fn) if isinstance(c.func, ast.Name))
    cands = [n for n in ast.walk(fn) if isinstance(n, ast.FunctionDef) and n is not fn] + [n for n in ae.body if isinstance(n, ast.FunctionDef) and n is not fn and n.name in called]
    for n in cands:
        # closures of the validator, or module-level helpers it calls, that compare with the properties / constants of an array
        reads_props = any(isinstance(a, ast.Attribute) and a.attr in ('properties', 'constants') for a in ast.walk(n))
        if reads_props:
            comparers[n.name] = n
    sites = []
    for c in M.calls(fn):
        if isinstance(c.func, ast.Name) and c.func.id in comparers and M.enclosing_func(c) is fn and len(c.args) >= 2:
            sites.append(c)
    inline = False
    if not comparers:
        # comparison written inline: look for reads of .properties in fn itself
        inline = any(isinstance(a, ast.Attribute) and a.attr == 'properties' for a in ast.walk(fn))
    roles = {'dest': [], 'source': []}
    for c in sites:
        a0 = M.unparse(c.args[0])
        loop = M.enclosing(c, (ast.For,))
        if 'equation.dest' in a0 or '.dest]' in a0:
            roles['dest'].append(c)
        elif loop is not None and 'sources' in M.unparse(loop.iter) and isinstance(loop.target, ast.Name) \
                and loop.target.id in [x.id for x in ast.walk(c.args[0]) if isinstance(x, ast.Name)]:
            roles['source'].append(c)
    if not sites and inline:
        chk.undecided('validator-covers-emitted-names', 'shape', node=fn, file=AE, func=fn.name,
                      detail='validator rewritten inline; rule does not know this shape')
        return
    for role, want, sd, notsd in (('dest', emit_d, 'D', 'S'), ('source', emit_s, 'S', 'D')):
        if not roles[role]:
            # the comparison is not written as a closure / helper call this rule knows: which names are demanded from which array is decided by the model run
            # (rule_validator_model); only the provenance of the emitted names is recorded here
            chk.note('validator shape not recognised for the %s side: decided by the model cases only' % role)
            continue
        for c in roles[role]:
            tg = set(T.flat(ev.ev(c.args[1], env)))
            missing = want - tg
            if missing:
                chk.violated('validator-covers-emitted-names', '%s:%s' % (role, ','.join(sorted(missing))),
                             node=c, file=AE, func=fn.name,
                             detail='pointer set-up is emitted for %s-array names of origin %s but the '
                                    'validated set only has origins %s (PRECLOSED = symbols reached through other precomputed '
                                    'symbols, e.g. RHOIJ1 -> RHOIJ -> rho)' % (role, sorted(want), sorted(tg & {'SIG', 'PRE', 'PRECLOSED'})))
            # (which side's names are demanded from which array is decided by the model cases of rule_validator_model, on the repository's own name collection)
            else:
                chk.holds('validator-covers-emitted-names', role, node=c, file=AE, func=fn.name,
                          detail='validated origins %s >= emitted origins %s' % (sorted(tg), sorted(want)))
    # Group.precomputed really is the closure: decided by a model run of _setup_precomputed on a model table with a dependency chain three deep and a diamond
    sp = M.find_method(eq, 'Group', '_setup_precomputed')
    from verif_static import emit as EM, absint as AI
    try:
        def blk(name, *syms):
            return EM.mock(symbols=set(syms) | set([name]), context={name: 0.0}, src_arrays=set(x for x in syms if x.startswith('s_')), dest_arrays=set(x for x in syms if x.startswith('d_')))
        table = {'PA': blk('PA', 'PB', 'd_x'), 'PB': blk('PB', 'PC', 'PD', 's_y'), 'PC': blk('PC', 'PE', 'd_z'), 'PD': blk('PD', 'PE'), 'PE': blk('PE', 's_w'),
                 'PF': blk('PF', 'PG'), 'PG': blk('PG', 'd_q'), 'PH': blk('PH', 'd_r')}
        runs = [('chain-and-diamond', ['PA'], ['PA', 'PB', 'PC', 'PD', 'PE']), ('two-roots', ['PD', 'PF'], ['PD', 'PE', 'PF', 'PG']), ('leaf-only', ['PH'], ['PH']), ('none', [], [])]
        for label, roots, want in runs:
            it = EM.interpreter()
            e1 = EM.mock(name='EqM', loop=EM.func('def loop(self, d_idx, s_idx, d_au, %s):\n    pass' % ', '.join(roots[:1] + ['s_m'])))
            e2 = EM.mock(name='EqN', loop=EM.func('def loop(self, d_idx, %s):\n    pass' % ', '.join(roots[1:] + ['d_av'])), initialize=EM.func('def initialize(self, d_idx, PH):\n    pass'))
            obj = EM.instance(it, EQ, 'Group', equations=[e1, e2], pre_comp=table, context={}, has_subgroups=False, src_arrays=None, dest_arrays=None)
            EM.call(it, obj, '_setup_precomputed')
            got = obj.attrs.get('precomputed')
            keys = list(got.keys()) if isinstance(got, dict) else None
            okc = keys is not None and sorted(keys) == want and len(set(keys)) == len(keys)
            # dependencies come first in the stored order (the blocks are emitted in this order)
            if okc:
                for k in keys:
                    for d_ in table[k].attrs['symbols']:
                        if d_ in table and d_ != k and keys.index(d_) > keys.index(k):
                            okc = False
            chk.decide(okc, 'precomputed-selection-is-dependency-closed', 'model:' + label, node=sp, file=EQ, func='Group._setup_precomputed',
                       detail_bad='model group whose loops ask for %s over a table with PA->PB->{PC,PD}->PE, PF->PG: the stored selection is %s, expected the closure %s with '
                                  'dependencies first - a symbol used by a selected block is then neither validated nor declared' % (roots, keys, want),
                       detail_ok='selection %s: closed under "used by a selected block", dependencies first' % keys)
    except (AI.Unsupported, AI.Raised) as e:
        chk.undecided('precomputed-selection-is-dependency-closed', 'model', node=sp, file=EQ, func='Group._setup_precomputed', detail='not interpretable on the model: %s' % e)
    # every hook for which calls are generated is inspected by the validator
    gaue = M.find_func(eq, 'get_arrays_used_in_equation')
    inspected = set(s for s in M.str_consts(gaue) if s in HOOKS)
    gc = M.find_method(eq, 'CythonGroup', '_get_code')
    emitted = set()
    for a in ast.walk(gc):
        if isinstance(a, ast.Assert):
            emitted |= set(s for s in M.str_consts(a) if s in HOOKS)
    if not emitted:
        raise AnalysisError('cannot find the hook kinds CythonGroup._get_code emits')
    need = emitted - {'reduce'}   # reduce receives dst.array, no raw pointers
    for h in sorted(need):
        chk.decide(h in inspected, 'validator-inspects-every-emitted-hook', h, node=gaue, file=EQ,
                   func='get_arrays_used_in_equation',
                   detail_bad='calls to %s() are generated with array pointers but its signature is not inspected '
                              'by the validator (inspected: %s)' % (h, sorted(inspected)),
                   detail_ok='inspected')
    # (that the validator raises on a non-empty difference, naming equation, array and property, is decided by the model cases of rule_validator_model)
    # comparison operator note
    for cmpn in ast.walk(fn):
        if isinstance(cmpn, ast.Compare) and any(isinstance(o, ast.Lt) for o in cmpn.ops) \
                and 'props' in M.unparse(cmpn):
            chk.note('%s:%d uses a proper-subset test (%s): an array having exactly the required names is '
                     'rejected (false rejection, not a C20 violation)' % (AE, cmpn.lineno, M.unparse(cmpn)))


def norm_cond(test):
    """normalise `not equation.no_source` / `equation.sources is not None` using the definition
    `self.no_source = self.sources is None` read from Equation.__init__"""
    eq = M.py(EQ)
    init = M.find_method(eq, 'Equation', '__init__')
    defn = None
    for s in ast.walk(init):
        if isinstance(s, ast.Assign) and M.unparse(s.targets[0]) == 'self.no_source':
            defn = M.unparse(s.value).replace('self.', 'equation.')
    t = M.unparse(test)
    if defn:
        t = t.replace('equation.no_source', '(' + defn + ')')
    t = t.replace(' ', '')
    t = t.replace('not(equation.sourcesisNone)', 'equation.sourcesisnotNone')
    return t


def rule_unknown_names(chk):
    ae = M.py(AE)
    fn = M.find_func(ae, 'check_equation_array_properties')
    g = C.build_cfg(fn)
    # guards: `if X not in p_arrays: raise`
    guards = {}
    for n in ast.walk(fn):
        if isinstance(n, ast.If) and isinstance(n.test, ast.Compare) and len(n.test.ops) == 1 \
                and isinstance(n.test.ops[0], ast.NotIn) and any(isinstance(b, ast.Raise) for b in n.body):
            guards[M.unparse(n.test.left)] = n
    # uses: p_arrays[X]
    mapping = None
    for key, n in guards.items():
        mapping = M.unparse(n.test.comparators[0])
    if mapping is None:
        chk.violated('unknown-array-name-raises-first', 'guards', node=fn, file=AE, func=fn.name,
                     detail='no `name not in arrays: raise` guard found')
        return
    uses = [s for s in ast.walk(fn) if isinstance(s, ast.Subscript) and M.unparse(s.value) == mapping]
    chk.floor('array lookups in validator', len(uses), 2)
    for u in uses:
        key = M.unparse(u.slice)
        stmt = u
        while not isinstance(getattr(stmt, 'parent', None), (ast.FunctionDef, ast.If, ast.For, ast.While, ast.With, ast.Try)):
            stmt = stmt.parent
        un = g.node_of(stmt)
        if key == 'equation.dest':
            gn = guards.get('equation.dest')
            ok = gn is not None and un is not None and g.dominates(g.node_of(gn), un)
            chk.decide(ok, 'unknown-array-name-raises-first', 'dest', node=u, file=AE, func=fn.name,
                       detail_bad='lookup of the destination array is not dominated by the invalid-dest guard',
                       detail_ok='guard dominates lookup')
        else:
            # a source lookup: guard is inside a loop over equation.sources that precedes this loop
            gl = [n for k, n in guards.items() if k != 'equation.dest']
            ok = False
            uloop = M.enclosing(u, (ast.For,))
            for gn in gl:
                loop = M.enclosing(gn, (ast.For,))
                if loop is not None and 'sources' in M.unparse(loop.iter):
                    ln = g.node_of(loop)
                    if un is not None and ln is not None and g.dominates(ln, un) and loop.lineno < u.lineno:
                        ok = True
                    # both loops may sit under equivalent `sources is not None` conditions
                    c1, c2 = M.enclosing(loop, (ast.If,)), (M.enclosing(uloop, (ast.If,)) if uloop is not None else None)
                    if not ok and c1 is not None and c2 is not None and loop.lineno < u.lineno \
                            and norm_cond(c1.test) == norm_cond(c2.test) \
                            and M.unparse(loop.iter) == M.unparse(uloop.iter) \
                            and g.dominates(g.node_of(c1), g.node_of(c2)):
                        ok = True
            chk.decide(ok, 'unknown-array-name-raises-first', 'source[%s]' % key, node=u, file=AE, func=fn.name,
                       detail_bad='lookup of a source array is not preceded by the invalid-source guard loop',
                       detail_ok='guard loop dominates lookup')


def rule_no_shortcut(chk):
    """the validator reaches its checks on every path: nothing returns before the names of dest / sources are validated, the arrays of the precomputed symbols are added and
    the missing-property test is made; and what it validates is computed from the equation at hand, not looked up in module-level state"""
    ae = M.py(AE)
    fn = M.find_func(ae, 'check_equation_array_properties')
    # statelessness of what the validator consumes
    eq = M.py(EQ)
    glob = set()
    for st in eq.body:
        if isinstance(st, ast.Assign) and isinstance(st.targets[0], ast.Name) and (isinstance(st.value, (ast.Dict, ast.List, ast.Set)) or
                                                                                 (isinstance(st.value, ast.Call) and M.call_name(st.value) in ('dict', 'list', 'set', 'defaultdict', 'OrderedDict'))):
            glob.add(st.targets[0].id)
    bad = []
    from verif_static import norm as N
    for fname in ('get_arrays_used_in_equation', 'get_array_names'):
        f = M.find_func(eq, fname)
        M.set_parents(f)
        defs = N.local_defs([f])
        for n in ast.walk(f):
            if isinstance(n, ast.Name) and n.id in glob:
                # a memo keyed by the class object of the equation itself gives back what would be computed; any other key (a name, say) lets different classes share an entry
                par = getattr(n, 'parent', None)
                key = None
                if isinstance(par, ast.Subscript) and par.value is n:
                    key = par.slice
                elif isinstance(par, ast.Compare) and len(par.ops) == 1 and isinstance(par.ops[0], (ast.In, ast.NotIn)) and par.comparators[0] is n:
                    key = par.left
                elif isinstance(par, ast.Attribute) and par.attr in ('get', 'setdefault', 'pop') and isinstance(getattr(par, 'parent', None), ast.Call) and par.parent.args:
                    key = par.parent.args[0]
                kt = M.unparse(N.inline(key, defs)).replace(' ', '') if key is not None else None
                if kt not in ('equation.__class__', 'type(equation)'):
                    bad.append((fname, n.id, kt, n.lineno))
    chk.decide(not bad, 'validation-on-every-path', 'arrays-computed-from-the-equation-at-hand', node=M.find_func(eq, 'get_arrays_used_in_equation'), file=EQ, func='get_arrays_used_in_equation',
               detail_bad='the d_/s_ names of an equation are looked up in module-level state (function, table, key) %s: unless the key is the class object of the equation itself, two different equation classes with the same name (PySPH ships several, e.g. SummationDensity) '
                          'share one entry, so the second is validated - and gets its pointers set up - with the first one\'s arguments' % sorted(set((a, b, str(c)) for a, b, c, d in bad)),
               detail_ok='computed from the methods of the equation passed in')


def rule_message(chk):
    ae = M.py(AE)
    eq = M.py(EQ)

    def extra(e, ev):
        if isinstance(e, ast.Attribute) and e.attr == 'name' and isinstance(e.value, ast.Name) \
                and e.value.id == 'equation':
            return frozenset(['EQNAME'])
        if isinstance(e, ast.Attribute) and e.attr in ('properties', 'constants'):
            return frozenset(T.flat(ev(e.value)) | {'AVAIL'})
        return None
    ev = make_evaluator([ae, eq], extra)
    fn = M.find_func(ae, 'check_equation_array_properties')
    _, env = ev.run_function(fn, [T.EMPTY, T.EMPTY])
    n = 0
    for r in ast.walk(fn):
        if isinstance(r, ast.Raise) and r.exc is not None:
            tg = set(T.flat(ev.ev(r.exc, env)))
            guard = M.enclosing(r, (ast.If,))
            kind = 'missing' if guard is not None and 'errors' in M.unparse(guard.test) else 'invalid-name'
            n += 1
            if kind == 'missing':
                ok = 'EQNAME' in tg and 'AVAIL' in tg and ('SIG' in tg or 'PRE' in tg)
                chk.decide(ok, 'error-names-equation-and-missing', 'missing-properties', node=r, file=AE, func=fn.name,
                           detail_bad='message does not depend on the equation name and the missing set (tags %s)' % sorted(tg),
                           detail_ok='message built from equation.name and the set difference')
            else:
                chk.decide('EQNAME' in tg, 'error-names-equation-and-missing', 'invalid-name@%s' % M.unparse(guard.test) if guard else 'raise',
                           node=r, file=AE, func=fn.name,
                           detail_bad='message does not name the equation', detail_ok='names the equation')
    chk.floor('raise sites in validator', n, 3)


def rule_validator_model(chk):
    """check_equation_array_properties decided on model inputs: the function is interpreted (E8) on a model equation and model particle arrays.  The model
    equation has hook signatures (initialize / loop with explicit s_m, s_rho / d_au, d_x and the pair symbol HIJ, which reads s_hs from the source and d_hd from the destination); get_arrays_used_in_equation and
    Group.get_array_names are the repository's own, interpreted on it, so the cases say which names must be demanded from which array whatever way the validator collects them."""
    from verif_static import emit as EM, absint as AI, eqindex as EI
    fn = M.find_func(M.py(AE), 'check_equation_array_properties')
    FULL = ['au', 'x', 'hd', 'hs', 'm', 'rho', 'p']

    def model_group(interp, f, args, kwargs, node, env):
        """Group(equations) of the model: the class of the repository (its get_array_names is interpreted), with the precomputed symbols the model equations' loop
        signatures ask for (HIJ, which reads s_hs and d_hd - different names on the two sides, so that a mix-up of the sides shows) - the selection itself is the subject of other rules"""
        eqs = list(args[0]) if args and isinstance(args[0], list) else []
        pre = {}
        for e_ in eqs:
            lp = e_.attrs.get('loop') if isinstance(e_, AI.Obj) else None
            if isinstance(lp, AI.FuncRef) and 'HIJ' in [a.arg for a in lp.node.args.args]:
                pre['HIJ'] = EM.mock(src_arrays=set(['s_hs']), dest_arrays=set(['d_hd']), symbols=set(['HIJ', 's_hs', 'd_hd', 's_idx', 'd_idx']))
        return EM.instance(interp, EQ, 'Group', equations=eqs, precomputed=pre, src_arrays=None, dest_arrays=None, has_subgroups=False, context={})

    def model_equation(name, dest, sources, explicit=('d_au', 'd_x', 's_m', 's_rho'), pre=True):
        d_ = [a for a in explicit if a.startswith('d_')]
        s_ = [a for a in explicit if a.startswith('s_')]
        hooks = dict(reduce=EM.func('def reduce(self, dst, t, dt):\n    pass'))
        if d_:
            hooks['initialize'] = EM.func('def initialize(self, d_idx, %s):\n    pass' % ', '.join(d_[:1]))
        if sources is not None:
            hooks['loop'] = EM.func('def loop(self, d_idx, s_idx, %s):\n    pass' % ', '.join(d_ + s_ + (['HIJ'] if pre else [])))
        else:
            hooks['initialize'] = EM.func('def initialize(self, d_idx, %s):\n    pass' % ', '.join(d_))
        return EM.mock(name=name, dest=dest, sources=list(sources) if sources is not None else None, no_source=sources is None, **hooks)

    def run(dest_props, src_props, dest='fluid', sources=('fluid', 'solid'), dest_consts=(), second_src_props=None, explicit=('d_au', 'd_x', 's_m', 's_rho')):
        calls = []

        def group(interp, f, args, kwargs, node, env):
            calls.append(('group', args[0] if args else None))
            return model_group(interp, f, args, kwargs, node, env)
        it = AI.Interp(EI.index(), AI.Config([]), intrinsics={(EQ, 'Group'): group})
        eq_ = model_equation('EqX', dest, sources, explicit=explicit) if sources is not None else model_equation('EqX', dest, None, explicit=('d_au', 'd_x', 'd_hd'))
        pas = [EM.mock(name='fluid', properties=dict((k, None) for k in dest_props), constants=dict((k, None) for k in dest_consts)),
               EM.mock(name='solid', properties=dict((k, None) for k in (second_src_props if second_src_props is not None else src_props)), constants={})]
        try:
            EM.call_function(it, AE, 'check_equation_array_properties', eq_, pas)
            return 'ok', '', calls, eq_
        except AI.Raised as e:
            msg = ' '.join(str(x) for x in (getattr(e, 'args_values', None) or []))
            return 'raised', msg, calls, eq_
    cases = [
        ('complete', dict(dest_props=FULL, src_props=FULL), 'ok', ()),
        ('dest-lacks-explicit-name', dict(dest_props=[k for k in FULL if k != 'au'], src_props=FULL), 'raised', ('EqX', 'fluid', 'au')),
        ('dest-lacks-precomputed-name', dict(dest_props=[k for k in FULL if k != 'hd'] + ['extra'], src_props=FULL), 'raised', ('EqX', 'fluid', 'hd')),
        ('second-source-lacks-explicit-name', dict(dest_props=FULL, src_props=[k for k in FULL if k != 'm']), 'raised', ('EqX', 'solid', 'm')),
        ('source-lacks-precomputed-name', dict(dest_props=FULL, src_props=[k for k in FULL if k != 'hs'] + ['extra']), 'raised', ('EqX', 'solid', 'hs')),
        # every source is validated, not only the last one listed
        ('first-of-two-sources-lacks-explicit-name', dict(dest_props=FULL, src_props=[k for k in FULL if k != 'm'], sources=('solid', 'fluid')), 'raised', ('EqX', 'solid', 'm')),
        ('first-of-two-sources-lacks-precomputed-name', dict(dest_props=FULL, src_props=[k for k in FULL if k != 'hs'] + ['extra'], sources=('solid', 'fluid')), 'raised', ('EqX', 'solid', 'hs')),
        ('constants-count', dict(dest_props=[k for k in FULL if k != 'rho'], src_props=FULL, dest_consts=['rho', 'c0']), 'ok', ()),
        ('source-only-name-not-demanded-from-dest', dict(dest_props=['au', 'x', 'hd', 'extra1', 'extra2', 'extra3', 'extra4'], src_props=FULL, sources=('solid',)), 'ok', ()),
        ('dest-only-name-not-demanded-from-source', dict(dest_props=FULL, src_props=['hs', 'm', 'rho', 'extra1', 'extra2'], sources=('solid',)), 'ok', ()),
        ('dest-that-is-also-a-source-lacks-source-name', dict(dest_props=[k for k in FULL if k != 'm'] + ['extra'], src_props=FULL, sources=('solid', 'fluid')), 'raised', ('EqX', 'fluid', 'm')),
        ('unknown-dest', dict(dest_props=FULL, src_props=FULL, dest='nope'), 'raised', ('EqX', 'nope')),
        ('unknown-source', dict(dest_props=FULL, src_props=FULL, sources=('fluid', 'nope')), 'raised', ('EqX', 'nope')),
        # nothing returns before the names are validated: an equation without any explicit d_/s_ argument (reduce and a loop over pair symbols only)
        ('no-explicit-names:unknown-dest', dict(dest_props=FULL, src_props=FULL, dest='nope', explicit=()), 'raised', ('EqX', 'nope')),
        ('no-explicit-names:unknown-source', dict(dest_props=FULL, src_props=FULL, sources=('nope',), explicit=()), 'raised', ('EqX', 'nope')),
        ('no-explicit-names:dest-lacks-precomputed-name', dict(dest_props=['au', 'x', 'extra', 'm', 'hs'], src_props=FULL, explicit=()), 'raised', ('EqX', 'fluid', 'hd')),
        ('no-explicit-names:source-lacks-precomputed-name', dict(dest_props=FULL, src_props=['au', 'x', 'extra', 'm', 'hd'], explicit=()), 'raised', ('EqX', 'solid', 'hs')),
        ('no-sources', dict(dest_props=['au', 'x', 'hd', 'extra'], src_props=[], sources=None), 'ok', ()),
        # an equation without sources is validated against its destination all the same (an equation of state, a per-particle update)
        ('no-sources:dest-lacks-explicit-name', dict(dest_props=['x', 'hd', 'extra'], src_props=[], sources=None), 'raised', ('EqX', 'fluid', 'au')),
        ('no-sources:dest-lacks-precomputed-name', dict(dest_props=['au', 'x', 'extra'], src_props=[], sources=None), 'raised', ('EqX', 'fluid', 'hd')),
        ('no-sources:unknown-dest', dict(dest_props=['au', 'x', 'hd'], src_props=[], sources=None, dest='nope'), 'raised', ('EqX', 'nope')),
    ]
    try:
        for label, kw, want, words in cases:
            got, msg, calls, eq_ = run(**kw)
            ok = got == want and all(w in msg for w in words)
            chk.decide(ok, 'validator-covers-emitted-names', 'model:' + label, node=fn, file=AE, func=fn.name,
                       detail_bad='model case %s: expected %s%s, the validator %s%s' % (label, want, (' with a message naming %s' % (words,)) if words else '', got, (' saying %r' % msg[:200]) if msg else ''),
                       detail_ok='%s%s' % (want, (' naming %s' % (words,)) if words else ''))
        # the constructor of AccelerationEval validates every equation - of plain groups and of sub-groups - against the arrays *it* names, each array counted with its own names only
        init = M.find_method(M.py(AE), 'AccelerationEval', '__init__')

        def construct(eq_list_builder, fluid_props, solid_props):
            calls = []

            def grouped(interp, f, args, kwargs, node, env):
                return args[0]
            it = AI.Interp(EI.index(), AI.Config([]), intrinsics={(EQ, 'Group'): model_group, (AE, None, 'group_equations'): grouped,
                                                                   (AE, 'AccelerationEval', '_get_backend'): lambda i, f, a, k, n, e: 'cython'})
            pas = [EM.mock(name='fluid', properties=dict((k, None) for k in fluid_props), constants={}), EM.mock(name='solid', properties=dict((k, None) for k in solid_props), constants={})]
            obj = EM.instance(it, AE, 'AccelerationEval')
            try:
                EM.call(it, obj, '__init__', pas, eq_list_builder(), EM.mock(name='kernel'))
                return 'ok', ''
            except AI.Raised as e:
                return 'raised', ' '.join(str(x) for x in (getattr(e, 'args_values', None) or []))
            except AI.Unsupported as e:
                r_ = getattr(e, 'raised', None)
                if r_ is not None:
                    return 'raised', ' '.join(str(x) for x in (getattr(r_, 'args_values', None) or []))
                raise

        def plain():
            e1 = model_equation('EqF', 'fluid', ['fluid', 'solid'], explicit=('d_au', 's_m'), pre=False)
            e2 = model_equation('EqS', 'solid', ['fluid'], explicit=('d_au', 's_m'), pre=False)
            return [EM.mock(has_subgroups=False, equations=[e1, e2])]

        def nested():
            e1 = model_equation('EqF', 'fluid', ['fluid', 'solid'], explicit=('d_au', 's_m'), pre=False)
            e2 = model_equation('EqS', 'solid', ['fluid'], explicit=('d_au', 's_m'), pre=False)
            return [EM.mock(has_subgroups=True, equations=[EM.mock(has_subgroups=False, equations=[e1]), EM.mock(has_subgroups=False, equations=[e2])])]
        def same_class_twice():
            # two instances of one equation class (the name of an equation is its class name): the first is incomplete, the one listed after it complete
            e1 = model_equation('EqX', 'solid', ['fluid'], explicit=('d_au', 's_m'), pre=False)
            e2 = model_equation('EqX', 'fluid', ['fluid'], explicit=('d_au', 's_m'), pre=False)
            return [EM.mock(has_subgroups=False, equations=[e1]), EM.mock(has_subgroups=False, equations=[e2])]
        def pair_symbol_later():
            # only the second equation uses a pair symbol (HIJ reads s_hs / d_hd)
            e1 = model_equation('EqF', 'fluid', ['fluid', 'solid'], explicit=('d_au', 's_m'), pre=False)
            e2 = model_equation('EqS', 'solid', ['fluid'], explicit=('d_au', 's_m'), pre=True)
            return [EM.mock(has_subgroups=False, equations=[e1, e2])]
        ccases = [('later-equation-needs-a-pair-symbol-the-first-does-not:dest', pair_symbol_later, ['au', 'm', 'hs'], ['au', 'm', 'hs'], 'raised', ('EqS', 'solid', 'hd')),
                  ('later-equation-needs-a-pair-symbol-the-first-does-not:source', pair_symbol_later, ['au', 'm', 'hd'], ['au', 'm', 'hd'], 'raised', ('EqS', 'fluid', 'hs')),
                  ('later-equation-needs-a-pair-symbol-the-first-does-not:complete', pair_symbol_later, ['au', 'm', 'hs'], ['au', 'm', 'hd'], 'ok', ()),
                  ('plain-complete', plain, ['au', 'm', 'x'], ['au', 'm', 'y'], 'ok', ()),
                  ('incomplete-instance-followed-by-a-complete-one-of-the-same-class', same_class_twice, ['au', 'm', 'x'], ['m', 'y', 'z'], 'raised', ('EqX', 'solid', 'au')),
                  ('plain-second-array-lacks-what-the-first-has', plain, ['au', 'm', 'x'], ['m', 'y', 'z'], 'raised', ('EqS', 'solid', 'au')),
                  ('sub-groups-are-validated', nested, ['au', 'm', 'x'], ['m', 'y', 'z'], 'raised', ('EqS', 'solid', 'au')),
                  ('source-array-lacks-source-name', plain, ['au', 'm', 'x'], ['au', 'y', 'z'], 'raised', ('EqF', 'solid', 'm'))]
        for label, builder, fp, sp, want, words in ccases:
            got, msg = construct(builder, fp, sp)
            chk.decide(got == want and all(w in msg for w in words), 'validation-dominates-compilation', 'model:AccelerationEval:' + label, node=init, file=AE, func='AccelerationEval.__init__',
                       detail_bad='constructing the evaluator on the model problem %s: expected %s%s, got %s %r' % (label, want, (' naming %s' % (words,)) if words else '', got, msg[:160]),
                       detail_ok='%s%s' % (want, (' naming %s' % (words,)) if words else ''))
    except AI.Unsupported as e:
        chk.undecided('validator-covers-emitted-names', 'model', node=fn, file=AE, func=fn.name, detail='validator not interpretable on the model: %s' % e)


def rule_steppers(chk):
    ih = M.py(IH)
    cls = M.find_class(ih, 'IntegratorCythonHelper')
    init = M.find_func(cls, '__init__')
    g = C.build_cfg(init)
    callsite = [c for c in M.calls(init) if M.call_name(c) == 'self._check_integrator_steppers']
    chk.decide(bool(callsite), 'stepper-names-validated-in-constructor', '__init__', node=init, file=IH,
               func='IntegratorCythonHelper.__init__',
               detail_bad='_check_integrator_steppers is not called from the constructor',
               detail_ok='called whenever an integrator is given')
    if callsite:
        guard = M.enclosing(callsite[0], (ast.If,))
        if guard is not None and M.unparse(guard.test).replace(' ', '') not in ('self.objectisnotNone',):
            chk.violated('stepper-names-validated-in-constructor', 'guard', node=guard, file=IH,
                         func='IntegratorCythonHelper.__init__',
                         detail='stepper validation is skipped under condition %s' % M.unparse(guard.test))
    # what the validators accept and reject, and which names they are given, is decided on model runs (rule_stepper_check_scope)
    # template: declarations (which validate) dominate set-up in every stage wrapper
    tpl = MT.parse_template(ITPL)
    top = tpl.fn('__template__')
    g = C.build_cfg(top)
    decl_nodes, setup_nodes, loop_nodes = [], [], []
    for n in g.nodes:
        e = MT.emitted_expr(n.ast) if n.ast is not None and isinstance(n.ast, ast.stmt) else None
        if e is None:
            continue
        for c in M.calls(e):
            nm = M.call_name(c)
            if nm == 'helper.get_array_declarations':
                decl_nodes.append((n.id, c))
            elif nm == 'helper.get_array_setup':
                setup_nodes.append((n.id, c))
            elif nm == 'helper.get_stepper_loop':
                loop_nodes.append((n.id, c))
    chk.floor('stepper pointer set-up emit sites in template', len(setup_nodes), 1)
    for sid, c in setup_nodes + loop_nodes:
        ok = any(g.dominates(did, sid) and M.unparse(dc.args[-1]) == M.unparse(c.args[-1]) for did, dc in decl_nodes)
        chk.decide(ok, 'stepper-arrays-validated-before-emission', 'template:%s' % M.call_name(c).split('.')[-1],
                   node=c, file=ITPL, func='stage wrapper',
                   detail_bad='emission is not dominated by get_array_declarations(<same method>) which performs the validation',
                   detail_ok='dominated by the validating declaration call for the same method')


def rule_ordering(chk):
    sc = M.py(SC)
    comp = M.find_method(sc, 'SPHCompiler', 'compile')
    g = C.build_cfg(comp)
    gen = [n.id for n in g.nodes if n.ast is not None and isinstance(n.ast, ast.stmt) and not isinstance(n.ast, (ast.If, ast.For))
           and any(M.call_name(c) == 'self._get_code' for c in M.calls(n.ast))]
    cc = [n.id for n in g.nodes if n.ast is not None and isinstance(n.ast, ast.stmt) and not isinstance(n.ast, (ast.If, ast.For))
          and any(isinstance(c.func, ast.Attribute) and c.func.attr == 'compile' for c in M.calls(n.ast))]
    if not gen or not cc:
        chk.undecided('validation-dominates-compilation', 'SPHCompiler.compile', node=comp, file=SC,
                      func='SPHCompiler.compile', detail='cannot find code generation / compile calls')
    else:
        first = cc[0]
        chk.decide(all(g.dominates(gen[0], c) for c in cc[:1]), 'validation-dominates-compilation',
                   'codegen-before-extmodule', node=g.nodes[first].ast, file=SC, func='SPHCompiler.compile',
                   detail_bad='helper.compile() is reachable without code generation (which runs the stepper checks)',
                   detail_ok='self._get_code() dominates helper0.compile()')
    getcode = M.find_method(sc, 'SPHCompiler', '_get_code')
    ok = any(M.call_name(c) == 'self.integrator_helper.get_code' for c in M.calls(getcode))
    chk.decide(ok, 'validation-dominates-compilation', 'integrator-code-generated-with-first-eval', node=getcode,
               file=SC, func='_get_code', detail_bad='integrator code (and its checks) not part of the compiled source',
               detail_ok='integrator code generated before compile')
    init = M.find_method(sc, 'SPHCompiler', '__init__')
    ok = any(M.call_name(c) == 'self._setup_helpers' for c in M.calls(init))
    sh = M.find_method(sc, 'SPHCompiler', '_setup_integrator_helper')
    ok2 = any((M.call_name(c) or '').endswith('IntegratorCythonHelper') for c in M.calls(sh))
    chk.decide(ok and ok2, 'validation-dominates-compilation', 'helper-constructed-in-SPHCompiler.__init__',
               node=init, file=SC, func='SPHCompiler.__init__',
               detail_bad='IntegratorCythonHelper (whose constructor validates stepper names) is not built at set-up',
               detail_ok='built in constructor')
    # AccelerationEval.__init__: validation of ALL equations dominates mega-group creation
    ae = M.py(AE)
    init = M.find_method(ae, 'AccelerationEval', '__init__')
    g = C.build_cfg(init)
    val_loops = [n for n in ast.walk(init) if isinstance(n, ast.For)
                 and any(M.call_name(c) == 'check_equation_array_properties' for c in M.calls(n))]
    mg = [n.id for n in g.nodes if n.ast is not None and isinstance(n.ast, ast.Assign)
          and any(M.call_name(c) == 'MegaGroup' for c in M.calls(n.ast))]
    if not val_loops:
        chk.violated('validation-dominates-compilation', 'AccelerationEval.__init__:validate', node=init, file=AE,
                     func='AccelerationEval.__init__', detail='check_equation_array_properties is never called')
    else:
        vl = val_loops[0]
        vid = g.node_of(vl)
        guarded = M.enclosing(vl, (ast.If, ast.For, ast.While, ast.Try))
        ok = guarded is None or guarded is init
        chk.decide(ok and M.enclosing(vl, (ast.If,)) is None, 'validation-dominates-compilation',
                   'AccelerationEval.__init__:unconditional', node=vl, file=AE, func='AccelerationEval.__init__',
                   detail_bad='validation loop is conditional', detail_ok='validation loop runs on every construction')
        if mg:
            chk.decide(g.dominates(vid, mg[0]), 'validation-dominates-compilation',
                       'AccelerationEval.__init__:before-megagroups', node=vl, file=AE, func='AccelerationEval.__init__',
                       detail_bad='mega-groups are created before the equations are validated',
                       detail_ok='validation dominates MegaGroup creation')
    # the other construction paths
    for rel, cname in (('pysph/tools/sph_evaluator.py', 'SPHEvaluator'), ('pysph/tools/interpolator.py', 'Interpolator')):
        t = M.py(rel)
        c = M.find_class(t, cname)
        names = set(M.call_name(x) for x in M.calls(c))
        ok = 'AccelerationEval' in names and 'SPHCompiler' in names
        chk.decide(ok, 'validation-dominates-compilation', '%s:constructs-through-validated-path' % cname, node=c,
                   file=rel, func=cname, detail_bad='does not build AccelerationEval + SPHCompiler',
                   detail_ok='AccelerationEval(...) then SPHCompiler(...).compile()')


def rule_stepper_check_scope(chk):
    """each destination's array is validated against the arguments of *its own* stepper, no more and no less (model run of get_array_declarations with a recording
    validator): an accumulated union rejects a wall array for lacking what only the fluid's stepper needs (shared with C12: a complete configuration must not be rejected)"""
    from verif_static import emit as EM, absint as AI
    IHF = 'pysph/sph/integrator_cython_helper.py'
    fn = M.find_method(M.py(IHF), 'IntegratorCythonHelper', 'get_array_declarations')
    try:
        it = EM.interpreter()
        calls = []

        def rec(interp, args, kwargs, node, env):
            names = args[1] if len(args) > 1 else kwargs.get('args')
            calls.append((args[0], frozenset(names) if isinstance(names, (set, frozenset, list, tuple)) else names))
            return frozenset()          # "nothing missing", should the caller look at what the validator returns
        st_a = EM.mock(stage1=EM.func('def stage1(self, d_idx, d_x, d_u, dt):\n    pass'))
        st_b = EM.mock(stage1=EM.func('def stage1(self, d_idx, d_y, d_fx, dt):\n    pass'))
        st_c = EM.mock(stage1=EM.func('def stage1(self, d_idx, d_x, d_rho, s_m, dt):\n    pass'))
        # two destinations share one stepper object (gas, gas2); one stepper takes a source-style name as well
        obj = EM.mock(steppers={'wall': st_b, 'fluid': st_a, 'gas': st_c, 'gas2': st_c})
        types = dict((k, EM.mock(type='double*')) for k in ('d_x', 'd_u', 'd_y', 'd_fx', 'd_rho', 's_m'))
        aeh = EM.mock(known_types=types, object=EM.mock(particle_arrays=[EM.mock(name=n_, properties=dict((k[2:], None) for k in types), constants={}) for n_ in ('wall', 'fluid', 'gas', 'gas2')]))
        h = EM.instance(it, IHF, 'IntegratorCythonHelper', _check_arrays_for_properties=rec)
        EM.call(it, h, '__init__', obj, aeh)            # built by its own constructor, so that whatever it prepares exists
        h.attrs['_check_arrays_for_properties'] = rec
        del calls[:]
        EM.call(it, h, 'get_array_declarations', 'stage1')
        want = {'wall': frozenset(['d_y', 'd_fx']), 'fluid': frozenset(['d_x', 'd_u']), 'gas': frozenset(['d_x', 'd_rho', 's_m']), 'gas2': frozenset(['d_x', 'd_rho', 's_m'])}
        got = dict(calls)
        chk.decide(got == want, 'stepper-arrays-validated-before-emission', 'each-array-against-its-own-stepper', node=fn, file=IHF, func='get_array_declarations',
                   detail_bad='for steppers wall(d_y, d_fx), fluid(d_x, d_u), gas and gas2 sharing one stepper (d_x, d_rho, s_m) the arrays are validated against %s; expected each against the arguments of its own stepper %s'
                              % (dict((k, sorted(v) if isinstance(v, frozenset) else v) for k, v in calls), dict((k, sorted(v)) for k, v in want.items())),
                   detail_ok='model run with three steppers: each destination validated against exactly its own stepper\'s arrays')
        # the pointer set-up emitted for a destination binds exactly the names that were validated for it
        same_ok = True
        seen_setup = {}
        for d_ in ('wall', 'fluid', 'gas', 'gas2'):
            txt = EM.call(it, h, 'get_array_setup', d_, 'stage1')
            bound = set()
            for st in ast.parse(textwrap.dedent(txt)).body:
                if isinstance(st, ast.Assign) and isinstance(st.targets[0], ast.Name):
                    bound.add(st.targets[0].id)
            seen_setup[d_] = sorted(bound)
            same_ok = same_ok and frozenset(bound) == want[d_]
        chk.decide(same_ok, 'stepper-arrays-validated-before-emission', 'same-name-source', node=fn, file=IHF, func='get_array_setup',
                   detail_bad='pointer set-up binds %s but the validated names are %s' % (seen_setup, dict((k, sorted(v)) for k, v in want.items())),
                   detail_ok='set-up binds exactly the validated names')
        # the validators themselves: a missing name raises, names found among properties or constants pass; an unknown stepper key raises
        def raises(callable_):
            try:
                callable_()
                return False
            except AI.Unsupported as e2:
                return 'raised' in str(e2)
            except AI.Raised:
                return True
        pa_ok = EM.mock(name='fluid', properties={'x': None, 'u': None}, constants={'rho0': None})
        def build(integ, pas):
            # through the constructor, so that whatever it prepares (tables of names, ...) exists
            hh = EM.instance(it, IHF, 'IntegratorCythonHelper')
            EM.call(it, hh, '__init__', integ, EM.mock(known_types=types, object=EM.mock(particle_arrays=pas)))
            return hh
        pa_other = EM.mock(name='other', properties={'p': None, 'x': None}, constants={'u': None})
        h2 = build(EM.mock(steppers={'fluid': st_a}), [pa_ok, pa_other])
        r_missing = raises(lambda: EM.call(it, h2, '_check_arrays_for_properties', 'fluid', set(['d_x', 'd_p'])))
        r_present = raises(lambda: EM.call(it, h2, '_check_arrays_for_properties', 'fluid', set(['d_x', 'd_u', 'd_rho0'])))
        chkfn = M.find_method(M.py(IHF), 'IntegratorCythonHelper', '_check_arrays_for_properties')
        chk.decide(r_missing and not r_present, 'stepper-arrays-validated-before-emission', 'validator-raises', node=chkfn, file=IHF, func='_check_arrays_for_properties',
                   detail_bad='on a model array with properties x, u and constant rho0 (another array of the problem has p): names {d_x, d_p} %s, names {d_x, d_u, d_rho0} %s (a missing name '
                              'must raise, properties and constants must both count)' % ('raise' if r_missing else 'pass', 'raise' if r_present else 'pass'), detail_ok='missing name raises; properties + constants accepted')
        r_unknown = raises(lambda: build(EM.mock(steppers={'fluid': st_a, 'ghost': st_b}), [pa_ok]))
        r_known = raises(lambda: build(EM.mock(steppers={'fluid': st_a}), [pa_ok]))
        cis = M.find_method(M.py(IHF), 'IntegratorCythonHelper', '_check_integrator_steppers')
        chk.decide(r_unknown and not r_known, 'stepper-names-validated-in-constructor', 'not-in-raises', node=cis, file=IHF, func='_check_integrator_steppers',
                   detail_bad='a stepper keyed by a name that is no particle array %s; valid keys %s' % ('raises' if r_unknown else 'is accepted', 'raise' if r_known else 'pass'),
                   detail_ok='unknown stepper array name raises')
    except (AI.Unsupported, AI.Raised) as e:
        chk.undecided('stepper-arrays-validated-before-emission', 'each-array-against-its-own-stepper', node=fn, file=IHF, func='get_array_declarations', detail='not interpretable: %s' % e)


def rule_codegen_rejects_model(chk):
    """IntegratorCythonHelper.get_code interpreted (E8) end to end on a model problem, the Mako template replaced by a model that makes the calls the template makes (the
    wrapper names, then the declarations and the pointer set-up of every wrapped method, in order): a problem whose array lacks a property that only ONE of the wrapped stepper
    methods reads - the first one, a middle one, the last one - must make code generation raise, naming the property; the complete problem must generate code"""
    from verif_static import emit as EM, absint as AI
    IHF = 'pysph/sph/integrator_cython_helper.py'
    fn = M.find_method(M.py(IHF), 'IntegratorCythonHelper', 'get_code')
    saved = dict((k, AI.EXTERNAL_CALLS.get(k)) for k in ('mako.template.Template', 'os.path.join', 'os.path.dirname'))

    def template(i, a, k, n, e):
        def render(i2, a2, k2, n2, e2):
            h = k2.get('helper', a2[0] if a2 else None)
            out = []
            names = EM.call(i2, h, 'get_stepper_method_wrapper_names')
            for m_ in names:
                out.append(EM.call(i2, h, 'get_array_declarations', m_))
                for d_ in sorted(h.attrs['object'].attrs['steppers']):
                    if EM.call(i2, h, 'has_stepper_loop', d_, m_) if i2.find_method(h.attrs['__class__'], 'has_stepper_loop') is not None else True:
                        out.append(EM.call(i2, h, 'get_array_setup', d_, m_))
            return '\n'.join(str(x) for x in out)
        return EM.mock(render=render)
    AI.EXTERNAL_CALLS['mako.template.Template'] = template
    AI.EXTERNAL_CALLS['os.path.join'] = lambda i, a, k, n, e: '/'.join(str(x) for x in a)
    AI.EXTERNAL_CALLS['os.path.dirname'] = lambda i, a, k, n, e: 'dir'
    bad, und, nrun = None, None, 0
    try:
        SIGS = {'initialize': ['d_x', 'd_x0'], 'stage1': ['d_x', 'd_u', 'd_au'], 'stage2': ['d_x', 'd_u', 'd_x0']}
        for lacking, only_in in ((None, None), ('au', 'stage1'), ('x0', None), ('u', None)) + tuple(('only_' + m_, m_) for m_ in ('initialize', 'stage1', 'stage2')):
            it = EM.interpreter()
            sigs = dict((m_, list(v_)) for m_, v_ in SIGS.items())
            props = set(['x', 'u', 'au', 'x0'])
            # the other array of the problem has everything the array under test lacks (each array counts with its own names only)
            other = set(['x', 'u', 'au', 'x0']) | (set([lacking]) if lacking is not None else set())
            if lacking is not None and lacking.startswith('only_'):
                sigs[only_in].append('d_' + lacking)          # a property read by this one method only, which the array does not have
            elif lacking is not None:
                props.discard(lacking)
            st = EM.mock(**dict((m_, EM.func('def %s(self, d_idx, %s, dt):\n    pass' % (m_, ', '.join(v_)))) for m_, v_ in sigs.items()))
            st2 = EM.mock(stage1=EM.func('def stage1(self, d_idx, d_x, dt):\n    pass'))
            integ = EM.mock(steppers={'fluid': st, 'solid': st2}, one_timestep=EM.func('def one_timestep(self, t, dt):\n    self.initialize()\n    self.stage1()\n    self.stage2()\n'))
            names_ = set(a_ for v_ in sigs.values() for a_ in v_) | set(['d_x'])
            aeh = EM.mock(known_types=dict((k_, EM.mock(type='double*')) for k_ in names_),
                          object=EM.mock(particle_arrays=[EM.mock(name='fluid', properties=dict((p_, None) for p_ in props), constants={}), EM.mock(name='solid', properties=dict((p_, None) for p_ in sorted(other)[:3]), constants=dict((p_, None) for p_ in sorted(other)[3:]))]))
            h = EM.instance(it, IHF, 'IntegratorCythonHelper')
            raised = None
            try:
                EM.call(it, h, '__init__', integ, aeh)
                EM.call(it, h, 'get_code')
            except AI.Unsupported as ex:
                if getattr(ex, 'raised', None) is None:
                    und = 'case %s: %s' % (lacking, ex)
                    break
                raised = str(ex) + ' ' + ' '.join(str(x) for x in (getattr(ex.raised, 'args_values', None) or []))
            except AI.Raised as ex:
                raised = str(ex) + ' ' + ' '.join(str(x) for x in (getattr(ex, 'args_values', None) or []))
            nrun += 1
            missing_name = None if lacking is None else lacking
            if lacking is None and raised is not None:
                bad = bad or 'the complete problem is rejected: %s' % raised[:200]
            elif lacking is not None and raised is None:
                bad = bad or ('the array lacks `%s`, which %s reads: code is generated without complaint' % (missing_name, only_in or 'a stepper method'))
            elif lacking is not None and missing_name not in raised:
                bad = bad or ('the array lacks `%s`: the error raised does not name it (%s)' % (missing_name, raised[:160]))
    finally:
        for k, v in saved.items():
            if v is None:
                AI.EXTERNAL_CALLS.pop(k, None)
            else:
                AI.EXTERNAL_CALLS[k] = v
    if und:
        chk.undecided('stepper-arrays-validated-before-emission', 'code-generation-rejects:model-run', node=fn, file=IHF, func='get_code', detail='not interpretable on the model: ' + und)
    else:
        chk.decide(bad is None, 'stepper-arrays-validated-before-emission', 'code-generation-rejects:model-run', node=fn, file=IHF, func='get_code',
                   detail_bad='model stepper initialize(d_x, d_x0) / stage1(d_x, d_u, d_au) / stage2(d_x, d_u, d_x0) on an array with x, u, au, x0: %s' % bad,
                   detail_ok='%d model problems: the complete one generates code, each incomplete one raises naming the property - also when only the first / a middle / the last wrapped method reads it' % nrun)


def main(chk):
    chk.explanation = ('Static rules over the validator and the code generator: the set of array names for which '
                       'pointer set-up is emitted must be covered by the set validated at construction time '
                       '(tag dataflow SIG/PRE x S/D with inlining), unknown names raise before look-up (dominance), '
                       'the message depends on equation name and missing set, stepper arrays are validated before '
                       'emission (template dominance), validation dominates compilation.')
    rule_validator_coverage(chk)
    rule_validator_model(chk)
    # (unknown array names: decided by the model cases unknown-dest / unknown-source of rule_validator_model)
    rule_no_shortcut(chk)
    # (what the errors say - equation, array, missing names - is decided on the messages of the model cases: rule_validator_model)
    rule_steppers(chk)
    rule_stepper_check_scope(chk)
    rule_codegen_rejects_model(chk)
    rule_ordering(chk)
    chk.unit('files', [AE, EQ, IH, AH, SC, ITPL, 'pysph/tools/sph_evaluator.py', 'pysph/tools/interpolator.py'])
    chk.floor('obligations', len(chk.obs), 20)
    chk.assume('getfullargspec(...) yields exactly the parameter names written in the method signatures')
    chk.assume('GPU back ends are out of scope')


if __name__ == '__main__':
    run_check('C20', main)
