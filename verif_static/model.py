"""E0 - program model: loaders, symbol index, class hierarchy, small AST helpers."""
import ast
import glob
import hashlib
import os
import textwrap

from .core import AnalysisError, REPO

_py_cache = {}
_cy_cache = {}


_SHARED = (ast.expr_context, ast.operator, ast.cmpop, ast.boolop, ast.unaryop)


def set_parents(tree):
    # ctx / operator nodes are singletons shared by every tree CPython parses: never hang a parent on them
    for n in ast.walk(tree):
        for ch in ast.iter_child_nodes(n):
            if not isinstance(ch, _SHARED):
                ch.parent = n
    return tree


def read(rel, repo=None):
    p = os.path.join(repo or REPO, rel)
    if not os.path.exists(p):
        raise AnalysisError('anchor file vanished: %s' % rel)
    with open(p, encoding='utf-8', errors='replace') as f:
        return f.read()


def py(rel, repo=None):
    key = (repo or REPO, rel)
    if key not in _py_cache:
        src = read(rel, repo)
        try:
            t = ast.parse(src, filename=rel)
        except SyntaxError as e:
            raise AnalysisError('cannot parse %s: %s' % (rel, e))
        t.rel = rel
        set_parents(t)
        _py_cache[key] = t
    return _py_cache[key]


def cy(rel, repo=None):
    key = (repo or REPO, rel)
    if key not in _cy_cache:
        from . import cy2ast
        if not os.path.exists(os.path.join(repo or REPO, rel)):
            raise AnalysisError('anchor file vanished: %s' % rel)
        try:
            t = cy2ast.cy_to_ast(repo or REPO, rel)
        except cy2ast.FrontEndError as e:
            raise AnalysisError('cython front end: %s' % e)
        t.rel = rel
        _cy_cache[key] = t
    return _cy_cache[key]


def load(rel, repo=None):
    if rel.endswith('.py'):
        return py(rel, repo)
    return cy(rel, repo)


def pyfiles(subdir, repo=None, exclude_tests=True):
    root = repo or REPO
    out = []
    for p in sorted(glob.glob(os.path.join(root, subdir, '**', '*.py'), recursive=True)):
        rel = os.path.relpath(p, root)
        if exclude_tests and ('/tests/' in rel or rel.endswith('/tests')):
            continue
        out.append(rel)
    return out


def digest(rels, repo=None):
    h = hashlib.sha256()
    for r in rels:
        h.update(read(r, repo).encode('utf-8', 'replace'))
    return h.hexdigest()[:16]


# ---------------------------------------------------------------------------
# lookup (anchors): vanishing => AnalysisError, never silent
# ---------------------------------------------------------------------------

def classes(tree):
    return [n for n in tree.body if isinstance(n, ast.ClassDef)]


def find_class(tree, name, required=True):
    for n in ast.walk(tree):
        if isinstance(n, ast.ClassDef) and n.name == name:
            return n
    if required:
        raise AnalysisError('anchor class vanished: %s in %s' % (name, getattr(tree, 'rel', '?')))
    return None


def methods(cls):
    return dict((n.name, n) for n in cls.body if isinstance(n, (ast.FunctionDef, ast.AsyncFunctionDef))
                and not getattr(n, 'cy_decl_only', False))


def find_func(scope, name, required=True):
    """Function ``name`` directly in module or class ``scope``."""
    for n in scope.body:
        if isinstance(n, (ast.FunctionDef, ast.AsyncFunctionDef)) and n.name == name:
            return n
    if required:
        raise AnalysisError('anchor function vanished: %s in %s' % (
            name, getattr(scope, 'name', getattr(scope, 'rel', '?'))))
    return None


def find_method(tree, cname, mname, required=True):
    c = find_class(tree, cname, required)
    if c is None:
        return None
    return find_func(c, mname, required)


def arg_names(fn):
    a = fn.args
    return [x.arg for x in a.posonlyargs + a.args + a.kwonlyargs]


def unparse(n):
    try:
        return ast.unparse(n)
    except Exception:
        return '<%s>' % type(n).__name__


def dotted(e):
    """'self.a.b' for Name/Attribute chains, else None."""
    parts = []
    while isinstance(e, ast.Attribute):
        parts.append(e.attr)
        e = e.value
    if isinstance(e, ast.Name):
        parts.append(e.id)
        return '.'.join(reversed(parts))
    return None


def call_name(c):
    """dotted name of the callee of a Call node (or None)."""
    if isinstance(c, ast.Call):
        return dotted(c.func)
    return None


def calls(node):
    return [n for n in ast.walk(node) if isinstance(n, ast.Call)]


def enclosing(node, kinds):
    p = getattr(node, 'parent', None)
    while p is not None:
        if isinstance(p, kinds):
            return p
        p = getattr(p, 'parent', None)
    return None


def enclosing_func(node):
    return enclosing(node, (ast.FunctionDef, ast.AsyncFunctionDef))


def qualname(node):
    names = []
    p = node
    while p is not None:
        if isinstance(p, (ast.FunctionDef, ast.AsyncFunctionDef, ast.ClassDef)):
            names.append(p.name)
        p = getattr(p, 'parent', None)
    return '.'.join(reversed(names))


def const_str(n):
    if isinstance(n, ast.Constant) and isinstance(n.value, str):
        return n.value
    return None


def str_consts(node):
    return [n.value for n in ast.walk(node) if isinstance(n, ast.Constant) and isinstance(n.value, str)]


def docstring_stripped(body):
    if body and isinstance(body[0], ast.Expr) and isinstance(body[0].value, ast.Constant) \
            and isinstance(body[0].value.value, str):
        return body[1:]
    return body


def parse_fragment(text, what='fragment'):
    try:
        t = ast.parse(textwrap.dedent(text))
    except SyntaxError as e:
        raise AnalysisError('cannot parse %s: %s' % (what, e))
    return set_parents(t)


# ---------------------------------------------------------------------------
# class index over many modules (by name, imports followed)
# ---------------------------------------------------------------------------

class ClassIndex(object):
    """All classes of a set of files; bases resolved by name through imports."""

    def __init__(self, rels, repo=None):
        self.repo = repo or REPO
        self.trees = {}
        self.by_mod = {}     # rel -> {name: ClassDef}
        self.by_name = {}    # name -> [(rel, ClassDef)]
        self.imports = {}    # rel -> {local name: (module dotted, orig name)}
        for rel in rels:
            t = load(rel, self.repo)
            self.trees[rel] = t
            d = {}
            for n in ast.walk(t):
                if isinstance(n, ast.ClassDef):
                    d.setdefault(n.name, n)
                    n.rel = rel
                    self.by_name.setdefault(n.name, []).append((rel, n))
            self.by_mod[rel] = d
            imp = {}
            for n in ast.walk(t):
                if isinstance(n, ast.ImportFrom) and n.module:
                    mod = n.module
                    if n.level:
                        base = os.path.dirname(rel).split('/')
                        base = base[:len(base) - (n.level - 1)] if n.level > 1 else base
                        mod = '.'.join(base + ([n.module] if n.module else []))
                    for a in n.names:
                        imp[a.asname or a.name] = (mod, a.name)
                elif isinstance(n, ast.Import):
                    for a in n.names:
                        imp[a.asname or a.name.split('.')[0]] = (a.name, None)
            self.imports[rel] = imp

    def mod_to_rel(self, mod):
        for ext in ('.py', '.pyx', '/__init__.py'):
            r = mod.replace('.', '/') + ext
            if r in self.trees:
                return r
        return None

    def resolve(self, rel, name, _depth=0):
        """Resolve class ``name`` as seen from module ``rel`` -> (rel, ClassDef) or None."""
        if _depth > 8:
            return None
        if '.' in name:
            head, _, tail = name.partition('.')
            imp = self.imports.get(rel, {}).get(head)
            if imp:
                r = self.mod_to_rel(imp[0] if imp[1] is None else imp[0] + '.' + imp[1]) or self.mod_to_rel(imp[0])
                if r:
                    return self.resolve(r, tail.split('.')[-1], _depth + 1)
            name = name.split('.')[-1]
        d = self.by_mod.get(rel, {})
        if name in d:
            return (rel, d[name])
        imp = self.imports.get(rel, {}).get(name)
        if imp and imp[1]:
            r = self.mod_to_rel(imp[0])
            if r:
                return self.resolve(r, imp[1], _depth + 1)
        # star imports
        t = self.trees.get(rel)
        if t is not None:
            for n in t.body:
                if isinstance(n, ast.ImportFrom) and any(a.name == '*' for a in n.names) and n.module:
                    r = self.mod_to_rel(n.module)
                    if r:
                        got = self.resolve(r, name, _depth + 1)
                        if got:
                            return got
        cands = self.by_name.get(name, [])
        if len(cands) == 1:
            return cands[0]
        return None

    def bases(self, rel, cls):
        out = []
        for b in cls.bases:
            nm = dotted(b)
            if nm is None:
                continue
            r = self.resolve(rel, nm)
            out.append((nm, r))
        return out

    def mro(self, rel, cls):
        """Linearised ancestors (C3 not needed: single inheritance dominates; DFS order)."""
        seen = []
        stack = [(rel, cls)]
        while stack:
            r, c = stack.pop(0)
            if any(c is x[1] for x in seen):
                continue
            seen.append((r, c))
            new = [b[1] for b in self.bases(r, c) if b[1] is not None]
            stack = new + stack
        return seen

    def base_names(self, rel, cls):
        """All ancestor names, including unresolved ones."""
        names = []
        for r, c in self.mro(rel, cls):
            for b in c.bases:
                nm = dotted(b)
                if nm:
                    names.append(nm.split('.')[-1])
        return names

    def is_subclass(self, rel, cls, basename):
        return cls.name == basename or basename in self.base_names(rel, cls)

    def subclasses(self, basename):
        out = []
        for rel, d in self.by_mod.items():
            for n in ast.walk(self.trees[rel]):
                if isinstance(n, ast.ClassDef) and n.name != basename and basename in self.base_names(rel, n):
                    out.append((rel, n))
        return out

    def lookup_method(self, rel, cls, mname):
        for r, c in self.mro(rel, cls):
            m = methods(c).get(mname)
            if m is not None:
                return r, c, m
        return None


# ---------------------------------------------------------------------------
# "extract method" undone: private helpers of a class inlined at their call sites
# ---------------------------------------------------------------------------

def inline_helpers(cls, fn, keep=(), depth=3, module=None):
    """A deep copy of method `fn` in which statement-level calls `self.<h>(...)` to methods of the same class are replaced by the body
    of <h> - for helpers whose name is not in `keep`, that take plain positional / keyword arguments and return at most once, as their
    last statement.  Three call shapes are handled: `self.h(..)`, `x = self.h(..)`, `return self.h(..)`.  Parameters bound to a
    differently spelled argument are assigned first (`param = arg`).  Rules written against the un-refactored shape of a method
    then see through a maintainer's helper extraction.  Statements are renumbered in textual order (`lineno`), the line in the
    file is kept in `src_lineno`; parent links are set."""
    import copy
    meths = methods(cls) if cls is not None else {}
    keep = set(keep) | set([fn.name])
    # bare-name helpers: functions of the module and closures defined inside fn itself
    plain = {}
    if module is not None:
        for f_ in module.body:
            if isinstance(f_, ast.FunctionDef):
                plain[f_.name] = f_
    for f_ in ast.walk(fn):
        if isinstance(f_, ast.FunctionDef) and f_ is not fn:
            plain.setdefault(f_.name, f_)

    def always_returns(stmts):
        if not stmts:
            return False
        l = stmts[-1]
        if isinstance(l, (ast.Return, ast.Raise)):
            return True
        if isinstance(l, ast.If):
            return always_returns(l.body) and always_returns(l.orelse)
        return False

    def has_return(stmts):
        return any(isinstance(x, ast.Return) for st in stmts for x in ast.walk(st))

    def single_exit(stmts):
        """early returns turned into if/else nesting (the statements after an `if` that returns are moved into the branches that fall through); a `return e`
        in tail position stays.  None when a return sits inside a loop / try / with."""
        out = []
        for k, st in enumerate(stmts):
            rest = stmts[k + 1:]
            if isinstance(st, ast.Return):
                out.append(st)
                return out
            if isinstance(st, ast.If) and (has_return(st.body) or has_return(st.orelse)):
                b = single_exit(list(st.body) + ([] if always_returns(st.body) else [copy.deepcopy(x) for x in rest]))
                o = single_exit(list(st.orelse) + ([] if always_returns(st.orelse) else [copy.deepcopy(x) for x in rest]))
                if b is None or o is None:
                    return None
                n_if = ast.If(test=st.test, body=b or [ast.Pass()], orelse=o, lineno=st.lineno, col_offset=0)
                out.append(n_if)
                return out
            if has_return([st]):
                return None
            out.append(st)
        return out

    def tail_returns(stmts, shape, target, line):
        """replace the returns in tail position of a single-exit body by what the call site does with the value"""
        if not stmts:
            stmts = []
        res = list(stmts)
        last = res[-1] if res else None
        def conv(value, ln):
            if shape == 'expr':
                return [ast.Expr(value=value, lineno=ln, col_offset=0)] if value is not None else []
            if shape == 'assign':
                if isinstance(value, ast.Name) and len(target) == 1 and isinstance(target[0], ast.Name) and target[0].id == value.id:
                    return []                # x = x: the helper's local already carries the caller's name
                return [ast.Assign(targets=[copy.deepcopy(t_) for t_ in target], value=value if value is not None else ast.Constant(value=None), lineno=ln, col_offset=0)]
            return [ast.Return(value=value, lineno=ln, col_offset=0)]
        if isinstance(last, ast.Return):
            res = res[:-1] + conv(last.value, last.lineno)
        elif isinstance(last, ast.If) and (has_return(last.body) or has_return(last.orelse)):
            last.body = tail_returns(last.body, shape, target, line) or [ast.Pass()]
            last.orelse = tail_returns(last.orelse, shape, target, line)
        elif isinstance(last, ast.Raise):
            pass
        else:
            res = res + (conv(None, line) if shape != 'expr' else [])
        return res

    def simple(h):
        if any(isinstance(x, (ast.Yield, ast.YieldFrom, ast.Global, ast.Nonlocal)) for x in ast.walk(h)):
            return False
        if h.args.vararg or h.args.kwarg or h.args.kwonlyargs:
            return False
        body0 = docstring_stripped(h.body)
        if not body0:
            return False
        inner_defs0 = [x for x in ast.walk(h) if isinstance(x, (ast.FunctionDef, ast.Lambda)) and x is not h]
        if any(isinstance(r, ast.Return) for d in inner_defs0 for r in ast.walk(d)):
            return False
        return single_exit([copy.deepcopy(x) for x in body0]) is not None

    def simple_old(h):
        rets = [r for r in ast.walk(h) if isinstance(r, ast.Return)]
        if any(isinstance(x, (ast.Yield, ast.YieldFrom, ast.Global, ast.Nonlocal)) for x in ast.walk(h)):
            return False
        body = docstring_stripped(h.body)
        if not body:
            return False
        inner_defs = [x for x in ast.walk(h) if isinstance(x, (ast.FunctionDef, ast.Lambda)) and x is not h]
        for r in rets:
            if any(r in list(ast.walk(d)) for d in inner_defs):
                continue
            if r is not body[-1]:
                return False
        if h.args.vararg or h.args.kwarg or h.args.kwonlyargs:
            return False
        return True

    def lookup(nm):
        """(helper FunctionDef, number of leading parameters bound implicitly)"""
        if nm.startswith('self.') and nm.count('.') == 1 and nm[5:] in meths:
            return meths[nm[5:]], 1
        if nm and '.' not in nm and nm in plain:
            return plain[nm], 0
        return None, 0

    def expand(call, shape, target):
        nm = call_name(call) or ''
        h, skip = lookup(nm)
        if h is None or h.name in keep or not simple(h) or any(isinstance(a, ast.Starred) for a in call.args) or any(k.arg is None for k in call.keywords):
            return None
        params = [a.arg for a in h.args.args][skip:]
        if len(call.args) > len(params):
            return None
        bind = dict(zip(params, call.args))
        for k in call.keywords:
            if k.arg not in params or k.arg in bind:
                return None
            bind[k.arg] = k.value
        ndef = len(h.args.defaults)
        for i, p in enumerate(params):
            if p not in bind:
                j = i - (len(params) - ndef)
                if j < 0:
                    return None
                bind[p] = h.args.defaults[j]
        out = []
        for p in params:
            a = bind[p]
            if isinstance(a, ast.Name) and a.id == p:
                continue
            out.append(ast.Assign(targets=[ast.Name(id=p, ctx=ast.Store())], value=copy.deepcopy(a), lineno=call.lineno, col_offset=0))
        body = single_exit([copy.deepcopy(s) for s in docstring_stripped(h.body)])
        if body is None:
            return None
        body = tail_returns(body, shape, target, call.lineno)
        for s in out + body:
            for x in ast.walk(s):
                x.inlined_from = h.name
        return out + body

    tmp_counter = [0]

    def hoist_test(s, level):
        """`if self.h(..):` / `if not self.h(..)` / `if self.h(..) <op> e` / `if self.h(..) and ...`: the call is the first thing evaluated, so it can be
        computed into a temporary in front of the statement without changing behaviour"""
        if level <= 0 or not isinstance(s, ast.If):
            return None
        t = s.test
        holder, attr = s, 'test'
        while True:
            if isinstance(t, ast.UnaryOp) and isinstance(t.op, ast.Not):
                holder, attr, t = t, 'operand', t.operand
            elif isinstance(t, ast.Compare):
                holder, attr, t = t, 'left', t.left
            elif isinstance(t, ast.BoolOp):
                holder, attr, t = t, 0, t.values[0]
            else:
                break
        if not isinstance(t, ast.Call):
            return None
        tmp_counter[0] += 1
        nm = '_inl%d' % tmp_counter[0]
        rep = expand(t, 'assign', [ast.Name(id=nm, ctx=ast.Store())])
        if rep is None:
            return None
        ref = ast.Name(id=nm, ctx=ast.Load(), lineno=s.lineno, col_offset=0)
        if attr == 0:
            holder.values[0] = ref
        else:
            setattr(holder, attr, ref)
        return rep

    SAFE_ABOVE = (ast.Call, ast.BinOp, ast.UnaryOp, ast.Compare, ast.Subscript, ast.Attribute, ast.Tuple, ast.List, ast.keyword, ast.Starred, ast.Dict)
    PURE = (ast.Name, ast.Constant, ast.Attribute)

    def hoist_nested(s, level):
        """inlinable helper calls nested inside the expression of a simple statement (`x = min(a, self.h(b))`) are computed into temporaries in front of it, when nothing
        with a side effect or a short-circuit sits between the statement and the call (only calls / arithmetic / subscripts above it, only names / constants / attributes
        evaluated before it)"""
        if level <= 0 or not isinstance(s, (ast.Assign, ast.Expr, ast.Return, ast.AugAssign)):
            return None
        root = s.value
        if root is None:
            return None
        pre = []

        def visit(n, top):
            for fname, val in ast.iter_fields(n):
                kids = val if isinstance(val, list) else [val]
                for idx, k in enumerate(kids):
                    if not isinstance(k, ast.AST):
                        continue
                    if isinstance(k, ast.Call) and not (top and k is root):
                        nm = call_name(k) or ''
                        h, _skip = lookup(nm)
                        if h is not None and h.name not in keep and simple(h):
                            earlier = kids[:idx] if isinstance(val, list) else []
                            if all(isinstance(e, PURE) for e in earlier if isinstance(e, ast.AST)) and all(isinstance(a, PURE + (ast.Constant,)) or not any(isinstance(y, ast.Call) for y in ast.walk(a)) for a in k.args):
                                tmp_counter[0] += 1
                                tn = '_inl%d' % tmp_counter[0]
                                rep = expand(k, 'assign', [ast.Name(id=tn, ctx=ast.Store())])
                                if rep is not None:
                                    pre.extend(rep)
                                    ref = ast.Name(id=tn, ctx=ast.Load(), lineno=getattr(k, 'lineno', 0), col_offset=0)
                                    if isinstance(val, list):
                                        val[idx] = ref
                                    else:
                                        setattr(n, fname, ref)
                                    continue
                    if isinstance(k, SAFE_ABOVE):
                        visit(k, False)
        if isinstance(root, SAFE_ABOVE):
            visit(root, True)
        return pre or None

    def walk(stmts, level):
        res = []
        for s in stmts:
            rep = None
            pre = hoist_test(s, level)
            if pre is not None:
                res.extend(walk(pre, level - 1))
            pre2 = hoist_nested(s, level)
            if pre2 is not None:
                res.extend(walk(pre2, level - 1))
            if level > 0:
                if isinstance(s, ast.Expr) and isinstance(s.value, ast.Call):
                    rep = expand(s.value, 'expr', None)
                elif isinstance(s, ast.Assign) and isinstance(s.value, ast.Call):
                    rep = expand(s.value, 'assign', s.targets)
                elif isinstance(s, ast.Return) and isinstance(s.value, ast.Call):
                    rep = expand(s.value, 'return', None)
                elif isinstance(s, ast.AnnAssign) and isinstance(s.value, ast.Call) and isinstance(s.target, ast.Name):
                    # a typed declaration with a value (cdef double s = helper(..)): the declaration stays, the value is computed by the inlined body
                    rep = expand(s.value, 'assign', [ast.Name(id=s.target.id, ctx=ast.Store())])
                    if rep is not None:
                        decl = ast.AnnAssign(target=ast.Name(id=s.target.id, ctx=ast.Store()), annotation=s.annotation, value=None, simple=1)
                        rep = [ast.copy_location(decl, s)] + rep
            if rep is not None:
                res.extend(walk(rep, level - 1))
                continue
            for field in ('body', 'orelse', 'finalbody'):
                if hasattr(s, field) and isinstance(getattr(s, field), list) and not isinstance(s, (ast.FunctionDef, ast.ClassDef)):
                    setattr(s, field, walk(getattr(s, field), level))
            if isinstance(s, ast.Try):
                for hd in s.handlers:
                    hd.body = walk(hd.body, level)
            res.append(s)
        return res
    new = copy.deepcopy(fn)
    for x in ast.walk(new):
        if hasattr(x, 'parent'):
            try:
                del x.parent
            except AttributeError:
                pass
    new.body = walk(new.body, depth)
    # closures whose every call was inlined are dropped
    still = set(call_name(c) for st in new.body if not isinstance(st, ast.FunctionDef) for c in calls(st))
    named = set(x.id for st in new.body if not isinstance(st, ast.FunctionDef) for x in ast.walk(st) if isinstance(x, ast.Name))
    new.body = [st for st in new.body if not (isinstance(st, ast.FunctionDef) and st.name not in still and st.name not in named and st.name in plain)]
    # renumber in textual order
    counter = [getattr(fn, 'lineno', 1)]

    def number(stmts):
        for s in stmts:
            counter[0] += 1
            src = getattr(s, 'lineno', None)
            for x in ast.walk(s):
                if hasattr(x, 'lineno') and not hasattr(x, 'src_lineno'):
                    x.src_lineno = x.lineno
            s.lineno = counter[0]
            for x in ast.walk(s):
                if x is not s and hasattr(x, 'lineno') and not isinstance(x, ast.stmt):
                    x.lineno = counter[0]
            for field in ('body', 'orelse', 'finalbody'):
                if hasattr(s, field) and isinstance(getattr(s, field), list) and not isinstance(s, (ast.FunctionDef, ast.ClassDef)):
                    number(getattr(s, field))
            if isinstance(s, ast.Try):
                for hd in s.handlers:
                    number(hd.body)
    number(new.body)
    ast.fix_missing_locations(new)
    set_parents(new)
    return new


def inlined_class(cls, keep=()):
    """a shallow copy of the class whose methods have their private-helper calls inlined; helpers all of whose call sites were inlined are dropped"""
    import copy
    meths = methods(cls)
    used_elsewhere = set()
    newc = copy.copy(cls)
    body = []
    inl = set()
    for s in cls.body:
        if isinstance(s, ast.FunctionDef):
            n = inline_helpers(cls, s, keep=keep)
            for x in ast.walk(n):
                if getattr(x, 'inlined_from', None):
                    inl.add(x.inlined_from)
            body.append(n)
        else:
            body.append(s)
    # a helper is dropped when no call to it remains anywhere in the class
    remaining = set()
    for s in body:
        if isinstance(s, ast.FunctionDef):
            for c in calls(s):
                nm = call_name(c) or ''
                if nm.startswith('self.') and nm.count('.') == 1:
                    remaining.add(nm[5:])
            for a in ast.walk(s):
                if isinstance(a, ast.Attribute) and isinstance(a.value, ast.Name) and a.value.id == 'self' and isinstance(a.ctx, ast.Load) and a.attr in inl \
                        and not isinstance(getattr(a, 'parent', None), ast.Call):
                    remaining.add(a.attr)       # passed around as a bound method
    newc.body = [s for s in body if not (isinstance(s, ast.FunctionDef) and s.name in inl and s.name not in remaining and s.name.startswith('_'))]
    return newc


def inlined_function(module, fn, keep=()):
    """a module-level function with the module's other (non-kept) functions and its own closures inlined at their call sites"""
    return inline_helpers(None, fn, keep=keep, module=module)


def counter_loops_as_for(fn):
    """a copy of fn in which `v = 0 ... while v < N: <body>; v += 1` (v assigned nowhere else in the loop, no continue, N not assigned in the loop) is written
    `for v in range(N): <body>` - the same iterations; a normal form for rules that talk about passes over a table"""
    from . import norm as N_
    new = N_.clone(fn)

    def rewrite(stmts):
        out = []
        for s in stmts:
            for f in ('body', 'orelse', 'finalbody'):
                if getattr(s, f, None) and isinstance(getattr(s, f), list) and not isinstance(s, (ast.FunctionDef, ast.ClassDef)):
                    setattr(s, f, rewrite(getattr(s, f)))
            if isinstance(s, ast.While) and isinstance(s.test, ast.Compare) and len(s.test.ops) == 1 and not s.orelse and s.body:
                t = s.test
                v = bound = None
                if isinstance(t.ops[0], ast.Lt) and isinstance(t.left, ast.Name):
                    v, bound = t.left.id, t.comparators[0]
                elif isinstance(t.ops[0], ast.Gt) and isinstance(t.comparators[0], ast.Name):
                    v, bound = t.comparators[0].id, t.left
                last = s.body[-1]
                if v is not None and isinstance(last, ast.AugAssign) and isinstance(last.op, ast.Add) and isinstance(last.target, ast.Name) and last.target.id == v and \
                        isinstance(last.value, ast.Constant) and last.value.value == 1:
                    writes = [x for x in ast.walk(s) if isinstance(x, (ast.Assign, ast.AugAssign, ast.AnnAssign)) and
                              any(isinstance(y, ast.Name) and y.id == v for tg in (x.targets if isinstance(x, ast.Assign) else [x.target]) for y in ast.walk(tg))]
                    bnames = set(y.id for y in ast.walk(bound) if isinstance(y, ast.Name))
                    bwrites = [x for x in ast.walk(s) if isinstance(x, (ast.Assign, ast.AugAssign, ast.AnnAssign)) and
                               any(isinstance(y, ast.Name) and y.id in bnames for tg in (x.targets if isinstance(x, ast.Assign) else [x.target]) for y in ast.walk(tg))]
                    # the counter starts at 0: its reaching definition in front of the loop
                    init0 = None
                    for prev in reversed(out):
                        tg = prev.targets[0] if isinstance(prev, ast.Assign) and len(prev.targets) == 1 else prev.target if isinstance(prev, ast.AnnAssign) else None
                        if isinstance(tg, ast.Name) and tg.id == v:
                            init0 = prev
                            break
                        if any(isinstance(y, ast.Name) and y.id == v and isinstance(y.ctx, ast.Store) for y in ast.walk(prev)):
                            break
                    zero = init0 is not None and isinstance(init0.value, ast.Constant) and init0.value.value == 0
                    if len(writes) == 1 and not bwrites and zero and not any(isinstance(x, (ast.Continue,)) for x in ast.walk(s)):
                        f_ = ast.For(target=ast.Name(id=v, ctx=ast.Store()), iter=ast.Call(func=ast.Name(id='range', ctx=ast.Load()), args=[bound], keywords=[]), body=s.body[:-1] or [ast.Pass()],
                                     orelse=[])
                        ast.copy_location(f_, s)
                        ast.fix_missing_locations(f_)
                        out.append(f_)
                        continue
            out.append(s)
        return out
    new.body = rewrite(new.body)
    set_parents(new)
    return new


def predicate_loops(node):
    """a copy of `node` (function or class) in which `while True: if C: break; <rest>` is written `while not C: <rest>` - the same loop; the normal form for rules about
    the predicate a loop waits on"""
    from . import norm as N_
    new = N_.clone(node)

    def neg(c):
        if isinstance(c, ast.UnaryOp) and isinstance(c.op, ast.Not):
            return c.operand
        return ast.UnaryOp(op=ast.Not(), operand=c)
    for w in ast.walk(new):
        if isinstance(w, ast.While) and isinstance(w.test, ast.Constant) and w.test.value is True and not w.orelse and w.body:
            first = w.body[0]
            if isinstance(first, ast.If) and not first.orelse and len([s for s in first.body if not (isinstance(s, ast.Expr) and isinstance(s.value, ast.Constant))]) == 1 \
                    and isinstance(first.body[-1], ast.Break):
                w.test = ast.copy_location(neg(first.test), first.test)
                w.body = w.body[1:] or [ast.copy_location(ast.Pass(), first)]
                ast.fix_missing_locations(w)
    set_parents(new)
    return new


def self_aliases_inlined(node):
    """a copy of `node` (function or class) in which a local that is assigned once, at the top level of its function, from a plain `self.<attr>` (also by tuple unpacking) and
    never assigned again - while the function does not assign that attribute either - is replaced by the attribute it names: `cond = self.plock; with cond:` is `with self.plock:`"""
    from . import norm as N_
    new = N_.clone(node)
    for fn in [f for f in ast.walk(new) if isinstance(f, ast.FunctionDef)]:
        cand = {}
        drop = []
        for st in fn.body:
            if isinstance(st, ast.Assign) and len(st.targets) == 1:
                tg, v = st.targets[0], st.value
                pairs = []
                if isinstance(tg, ast.Name):
                    pairs = [(tg, v)]
                elif isinstance(tg, ast.Tuple) and isinstance(v, ast.Tuple) and len(tg.elts) == len(v.elts) and all(isinstance(t_, ast.Name) for t_ in tg.elts):
                    pairs = list(zip(tg.elts, v.elts))
                if pairs and all(isinstance(v_, ast.Attribute) and isinstance(v_.value, ast.Name) and v_.value.id == 'self' for t_, v_ in pairs):
                    for t_, v_ in pairs:
                        cand[t_.id] = v_
                    drop.append(st)
        if not cand:
            continue
        stores = {}
        attr_stores = set()
        for x in ast.walk(fn):
            if isinstance(x, ast.Name) and isinstance(x.ctx, (ast.Store, ast.Del)):
                stores[x.id] = stores.get(x.id, 0) + 1
            if isinstance(x, ast.Attribute) and isinstance(x.ctx, (ast.Store, ast.Del)) and isinstance(x.value, ast.Name) and x.value.id == 'self':
                attr_stores.add(x.attr)
        good = dict((k, v) for k, v in cand.items() if stores.get(k, 0) == 1 and v.attr not in attr_stores)
        if not good:
            continue
        # nested functions that rebind the name are left alone (none in practice); replace loads
        class R(ast.NodeTransformer):
            def visit_Name(self, n):
                if isinstance(n.ctx, ast.Load) and n.id in good:
                    return ast.copy_location(ast.Attribute(value=ast.Name(id='self', ctx=ast.Load()), attr=good[n.id].attr, ctx=ast.Load()), n)
                return n
        keep = []
        for st in fn.body:
            if st in drop:
                tg = st.targets[0]
                names = [tg.id] if isinstance(tg, ast.Name) else [t_.id for t_ in tg.elts]
                if all(n_ in good for n_ in names):
                    continue
            keep.append(R().visit(st))
        fn.body = keep or [ast.Pass()]
        ast.fix_missing_locations(fn)
    set_parents(new)
    return new


def literal_loops_unrolled(node):
    """a copy of `node` in which a loop over a short literal tuple / list (`for idx, tr in ((x_low, xt_low), (x_high, xt_high)): BODY`) is written out: BODY once per element
    with the loop variables replaced by the element (components) - when BODY neither assigns the loop variables nor leaves the loop with break / continue"""
    from . import norm as N_
    new = N_.clone(node)

    def unroll(stmts):
        out = []
        for st in stmts:
            for f_ in ('body', 'orelse', 'finalbody'):
                b_ = getattr(st, f_, None)
                if isinstance(b_, list) and not isinstance(st, ast.ClassDef):
                    setattr(st, f_, unroll(b_))
            done = False
            if isinstance(st, ast.For) and isinstance(st.iter, (ast.Tuple, ast.List)) and 0 < len(st.iter.elts) <= 8 and not st.orelse:
                tg = st.target
                names = [tg.id] if isinstance(tg, ast.Name) else [e.id for e in tg.elts] if isinstance(tg, ast.Tuple) and all(isinstance(e, ast.Name) for e in tg.elts) else None
                leaves = any(isinstance(x, (ast.Break, ast.Continue)) for b in st.body for x in ast.walk(b))
                stores = names is not None and any(isinstance(x, ast.Name) and x.id in names and isinstance(x.ctx, (ast.Store, ast.Del)) for b in st.body for x in ast.walk(b))
                shapes_ok = names is not None and all((isinstance(tg, ast.Name)) or (isinstance(e, (ast.Tuple, ast.List)) and len(e.elts) == len(names)) for e in st.iter.elts)
                if names is not None and not leaves and not stores and shapes_ok:
                    for e in st.iter.elts:
                        mp = {names[0]: e} if isinstance(tg, ast.Name) else dict(zip(names, e.elts))

                        class R(ast.NodeTransformer):
                            def visit_Name(self, n, mp=mp):
                                if isinstance(n.ctx, ast.Load) and n.id in mp:
                                    return ast.copy_location(N_.clone(mp[n.id]), n)
                                return n
                        for b in st.body:
                            out.append(R().visit(N_.clone(b)))
                    done = True
            if not done:
                out.append(st)
        return out
    if isinstance(new, (ast.FunctionDef, ast.ClassDef, ast.Module)):
        new.body = unroll(new.body)
    ast.fix_missing_locations(new)
    set_parents(new)
    return new


def single_precision_declarations(tree):
    """[(name, type text, node)] of the variables, attributes and parameters of a lowered Cython tree that are declared with the C type `float` (32 bit) - in Cython, unlike in
    Python, `float` is single precision"""
    out = []
    for x in ast.walk(tree):
        if isinstance(x, ast.AnnAssign) and isinstance(x.annotation, ast.Constant) and isinstance(x.annotation.value, str):
            ty = x.annotation.value.replace('public', '').replace('readonly', '').strip()
            if ty == 'float' or ty.startswith('float*') or ty.startswith('float[') or ty.startswith('float '):
                out.append((unparse(x.target), ty, x))
        if isinstance(x, ast.arg) and isinstance(getattr(x, 'annotation', None), ast.Constant) and isinstance(x.annotation.value, str):
            ty = x.annotation.value.strip()
            if ty == 'float' or ty.startswith('float*') or ty.startswith('float['):
                out.append((x.arg, ty, x))
    return out


def continues_as_nesting(fn):
    """a copy of `fn` in which, inside loop bodies, `if T: [..;] continue` followed by REST is written `if T: [..] else: REST` - and, when the branch holds nothing but the
    continue, `if not T: REST` (a leading `not` of T cancelled) - the same iterations do the same work; a normal form for rules that look for `if <test>: <action>`"""
    from . import norm as N_
    new = N_.clone(fn)

    def neg(t):
        if isinstance(t, ast.UnaryOp) and isinstance(t.op, ast.Not):
            return t.operand
        return ast.UnaryOp(op=ast.Not(), operand=t)

    def rewrite(stmts, in_loop):
        out = []
        for k, st in enumerate(stmts):
            for f_ in ('body', 'orelse', 'finalbody'):
                b_ = getattr(st, f_, None)
                if isinstance(b_, list) and not isinstance(st, (ast.FunctionDef, ast.ClassDef)):
                    setattr(st, f_, rewrite(b_, in_loop or isinstance(st, (ast.For, ast.While))) if not (isinstance(st, (ast.For, ast.While)) and f_ == 'orelse') else b_)
            if in_loop and isinstance(st, ast.If) and not st.orelse and st.body and isinstance(st.body[-1], ast.Continue) and k + 1 < len(stmts):
                rest = rewrite(stmts[k + 1:], in_loop)
                if len(st.body) == 1:
                    out.append(ast.copy_location(ast.If(test=neg(st.test), body=rest, orelse=[]), st))
                else:
                    out.append(ast.copy_location(ast.If(test=st.test, body=st.body[:-1], orelse=rest), st))
                ast.fix_missing_locations(out[-1])
                return out
            out.append(st)
        return out
    new.body = rewrite(new.body, False)
    set_parents(new)
    return new


def descending_ranges_ascending(fn):
    """a copy of `fn` in which every `for v in range(A, B, -1): BODY` is written `for v__k in range(A - B): v = A - v__k; BODY` - the same indices in the same order, through
    an ascending counter (the engines for index sets know ranges with step 1 only)"""
    from . import norm as N_
    new = N_.clone(fn)
    for loop in [l for l in ast.walk(new) if isinstance(l, ast.For) and isinstance(l.target, ast.Name)]:
        it = loop.iter
        if not (isinstance(it, ast.Call) and isinstance(it.func, ast.Name) and it.func.id in ('range', 'prange') and len(it.args) == 3):
            continue
        st = it.args[2]
        neg1 = (isinstance(st, ast.UnaryOp) and isinstance(st.op, ast.USub) and isinstance(st.operand, ast.Constant) and st.operand.value == 1) or \
            (isinstance(st, ast.Constant) and st.value == -1)
        if not neg1:
            continue
        v = loop.target.id
        k = v + '__k'
        a, b = it.args[0], it.args[1]
        loop.target = ast.Name(id=k, ctx=ast.Store())
        loop.iter = ast.copy_location(ast.Call(func=ast.Name(id='range', ctx=ast.Load()), args=[ast.BinOp(left=N_.clone(a), op=ast.Sub(), right=N_.clone(b))], keywords=[]), it)
        first = ast.copy_location(ast.Assign(targets=[ast.Name(id=v, ctx=ast.Store())], value=ast.BinOp(left=N_.clone(a), op=ast.Sub(), right=ast.Name(id=k, ctx=ast.Load()))), loop)
        loop.body = [first] + loop.body
        ast.fix_missing_locations(loop)
    set_parents(new)
    return new


def self_aliases_inlined_deep(node, back_to_names=()):
    """like self_aliases_inlined, but the single assignment `v = self.<attr>` may sit in any block of the function as long as every read of `v` comes in (or below) a later
    statement of that same block.  With `back_to_names` the attributes listed there are afterwards written as plain names (`self.inlet_pa` -> `inlet_pa`) wherever the function
    has no local of that name left, so that a rule sees one spelling whether the code reads the attribute directly, through a local of the same name or through a renamed one"""
    from . import norm as N_
    new = N_.clone(node)
    set_parents(new)
    for fn in [f for f in ast.walk(new) if isinstance(f, ast.FunctionDef)]:
        stores = {}
        attr_stores = set()
        bare = set(id(a_.target) for a_ in ast.walk(fn) if isinstance(a_, ast.AnnAssign) and a_.value is None)          # `cdef int v` declares, it assigns nothing
        for x in ast.walk(fn):
            if isinstance(x, ast.Name) and isinstance(x.ctx, (ast.Store, ast.Del)) and id(x) not in bare:
                stores[x.id] = stores.get(x.id, 0) + 1
            if isinstance(x, ast.Attribute) and isinstance(x.ctx, (ast.Store, ast.Del)) and isinstance(x.value, ast.Name) and x.value.id == 'self':
                attr_stores.add(x.attr)
        params = set(a.arg for a in fn.args.args + fn.args.kwonlyargs)
        good = {}
        for st in list(ast.walk(fn)):
            if isinstance(st, ast.Assign) and len(st.targets) == 1 and isinstance(st.targets[0], ast.Name):
                v, nm = st.value, st.targets[0].id
            elif isinstance(st, ast.AnnAssign) and isinstance(st.target, ast.Name) and st.value is not None:          # `cdef int v = self.H`
                v, nm = st.value, st.target.id
            else:
                continue
            if not (isinstance(v, ast.Attribute) and isinstance(v.value, ast.Name) and v.value.id == 'self'):
                continue
            if stores.get(nm, 0) != 1 or nm in params or v.attr in attr_stores:
                continue
            par = getattr(st, 'parent', None)
            blk = None
            for f_ in ('body', 'orelse', 'finalbody'):
                b_ = getattr(par, f_, None)
                if isinstance(b_, list) and any(x is st for x in b_):
                    blk = b_
            if blk is None:
                continue
            i = [k for k, x in enumerate(blk) if x is st][0]
            allowed = set()
            for later in blk[i + 1:]:
                for x in ast.walk(later):
                    allowed.add(id(x))
            loads = [x for x in ast.walk(fn) if isinstance(x, ast.Name) and x.id == nm and isinstance(x.ctx, ast.Load)]
            if all(id(x) in allowed for x in loads):
                good[nm] = (v.attr, st, blk)
        if good:
            class R(ast.NodeTransformer):
                def visit_Name(self, n):
                    if isinstance(n.ctx, ast.Load) and n.id in good:
                        return ast.copy_location(ast.Attribute(value=ast.Name(id='self', ctx=ast.Load()), attr=good[n.id][0], ctx=ast.Load()), n)
                    return n
            for nm, (attr, st, blk) in good.items():
                blk[:] = [x for x in blk if x is not st] or [ast.copy_location(ast.Pass(), st)]
            R().visit(fn)
        if back_to_names:
            left = set(x.id for x in ast.walk(fn) if isinstance(x, ast.Name) and isinstance(x.ctx, (ast.Store, ast.Del))) | set(a.arg for a in fn.args.args + fn.args.kwonlyargs)

            class B(ast.NodeTransformer):
                def visit_Attribute(self, n):
                    self.generic_visit(n)
                    if isinstance(n.ctx, ast.Load) and isinstance(n.value, ast.Name) and n.value.id == 'self' and n.attr in back_to_names and n.attr not in left and n.attr not in attr_stores:
                        return ast.copy_location(ast.Name(id=n.attr, ctx=ast.Load()), n)
                    return n
            B().visit(fn)
        ast.fix_missing_locations(fn)
    set_parents(new)
    return new


def data_aliases_inlined(fn):
    """a copy of `fn` in which a local assigned exactly once, at the top level of the function, from `<name>.data` (the raw buffer of a carray held in another local that is
    itself assigned at most once before) is replaced by that expression: `p = arr.data; p[i] = v` is `arr.data[i] = v`"""
    from . import norm as N_
    new = N_.clone(fn)
    stores = {}
    decl = set(id(a.target) for a in ast.walk(new) if isinstance(a, ast.AnnAssign) and a.value is None)        # bare declarations (cdef int* p) assign nothing
    for x in ast.walk(new):
        if isinstance(x, ast.Name) and isinstance(x.ctx, (ast.Store, ast.Del)) and id(x) not in decl:
            stores[x.id] = stores.get(x.id, 0) + 1
    good = {}
    drop = []
    for st in new.body:
        tg = v = None
        if isinstance(st, ast.Assign) and len(st.targets) == 1 and isinstance(st.targets[0], ast.Name):
            tg, v = st.targets[0], st.value
        elif isinstance(st, ast.AnnAssign) and isinstance(st.target, ast.Name) and st.value is not None:
            tg, v = st.target, st.value
        if tg is None:
            continue
        while isinstance(v, ast.Call) and isinstance(v.func, ast.Name) and v.func.id in ('__cast__', 'cast') and v.args:
            v = v.args[-1]
        if isinstance(v, ast.Attribute) and v.attr == 'data' and isinstance(v.value, ast.Name) and stores.get(tg.id, 0) == 1 and stores.get(v.value.id, 0) <= 1:
            good[tg.id] = v
            drop.append(st)

    if not good:
        set_parents(new)
        return new

    class R(ast.NodeTransformer):
        def visit_Name(self, n):
            if isinstance(n.ctx, ast.Load) and n.id in good:
                return ast.copy_location(ast.Attribute(value=ast.Name(id=good[n.id].value.id, ctx=ast.Load()), attr='data', ctx=ast.Load()), n)
            return n
    body = []
    for st in new.body:
        if st in drop:
            continue
        body.append(R().visit(st))
    new.body = body
    ast.fix_missing_locations(new)
    set_parents(new)
    return new


def single_locals_inlined(node, only_in=None):
    """a copy of `node` (module, class or function) in which, per function, a local that is assigned exactly once (declarations `a, b = declare(...)` aside) at the top level
    of the function, from an expression over parameters / constants / array elements that the function never stores to, is written out where it is used:
    `i4 = 4*d_idx; d_p[i4 + i] = 0` is `d_p[4*d_idx + i] = 0`; `nd = d_n[d_idx]; if nd > eps: d_p[d_idx] /= nd` is the same test and division on d_n[d_idx]"""
    from . import norm as N_
    new = N_.clone(node)
    for fn in [f for f in ast.walk(new) if isinstance(f, ast.FunctionDef)]:
        if only_in is not None and fn.name not in only_in:
            continue
        params = set(a.arg for a in fn.args.args)
        stores = {}
        stored_arrays = set()
        for x in ast.walk(fn):
            if isinstance(x, ast.Assign) and isinstance(x.value, ast.Call) and isinstance(x.value.func, ast.Name) and x.value.func.id == 'declare':
                continue
            tg = []
            if isinstance(x, ast.Assign):
                tg = x.targets
            elif isinstance(x, (ast.AugAssign, ast.AnnAssign)):
                tg = [x.target]
            elif isinstance(x, ast.For):
                tg = [x.target]
            for t_ in tg:
                for y in ast.walk(t_):
                    if isinstance(y, ast.Name) and isinstance(y.ctx, ast.Store):
                        stores[y.id] = stores.get(y.id, 0) + 1
                    if isinstance(y, ast.Subscript) and isinstance(y.ctx, ast.Store) and isinstance(y.value, ast.Name):
                        stored_arrays.add(y.value.id)
        good = {}
        drop = []
        for st in fn.body:
            if isinstance(st, ast.Assign) and len(st.targets) == 1 and isinstance(st.targets[0], ast.Name) and stores.get(st.targets[0].id) == 1 and st.targets[0].id not in params:
                v = st.value
                names = [y for y in ast.walk(v) if isinstance(y, ast.Name)]
                pure = all(isinstance(y, (ast.Name, ast.Constant, ast.BinOp, ast.UnaryOp, ast.Subscript, ast.operator, ast.unaryop, ast.expr_context, ast.Attribute)) for y in ast.walk(v))
                if pure and all(y.id in params or y.id in good or y.id == 'self' for y in names) and not any(isinstance(y, ast.Subscript) and isinstance(y.value, ast.Name) and y.value.id in stored_arrays
                                                                                                        for y in ast.walk(v)):
                    # written out through the locals already expanded
                    class R0(ast.NodeTransformer):
                        def visit_Name(self, n):
                            if isinstance(n.ctx, ast.Load) and n.id in good:
                                return N_.clone(good[n.id])
                            return n
                    good[st.targets[0].id] = R0().visit(N_.clone(v))
                    drop.append(st)
        if not good:
            continue

        class R(ast.NodeTransformer):
            def visit_Name(self, n):
                if isinstance(n.ctx, ast.Load) and n.id in good:
                    return ast.copy_location(N_.clone(good[n.id]), n)
                return n
        fn.body = [R().visit(st) for st in fn.body if st not in drop] or [ast.Pass()]
        ast.fix_missing_locations(fn)
    set_parents(new)
    return new
