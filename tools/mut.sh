#!/bin/sh
# usage: tools/mut.sh CNN 's/old/new/' relpath   -- applies a sed edit to a scratch copy of /repo/pysph and runs the check on it
id="$1"; expr="$2"; rel="$3"
S=/tmp/mut_$$; rm -rf $S; mkdir -p $S
(cd /repo && git archive HEAD pysph docs | tar -x -C $S)
cp $S/$rel $S/$rel.orig
sed -i "$expr" $S/$rel
if cmp -s $S/$rel $S/$rel.orig; then echo "MUTATION DID NOT CHANGE ANYTHING"; fi
rm $S/$rel.orig
cd /verif && VERIF_EVIDENCE_DIR=$S/ev VERIF_REPO=$S timeout 300 ./check $id | grep -v "^  rule\|^  note" | head -${4:-8}
rm -rf $S
