"""C17 - spatial re-ordering is a pure permutation of whole particles (static rules, DESIGN.md C17)."""
import ast
import glob
import os
import sys

sys.path.insert(0, os.path.dirname(os.path.dirname(os.path.abspath(__file__))))
from verif_static.core import run_check, AnalysisError, REPO  # noqa
from verif_static import model as M, cfg as C  # noqa

NB = 'pysph/base/nnps_base.pyx'
SOL = 'pysph/solver/solver.py'


def U(n):
    return M.unparse(n)


def compact(n):
    return U(n).replace(' ', '')


def cpu_nnps_files():
    out = []
    for p in sorted(glob.glob(os.path.join(REPO, 'pysph/base/*_nnps.pyx'))):
        rel = os.path.relpath(p, REPO)
        if 'gpu' in rel:
            continue
        out.append(rel)
    return out


def per_array(e, idxname):
    """expression is a per-array structure selected by the function's own pa_index argument"""
    s = compact(e)
    return ('[%s]' % idxname) in s and 'src_index' not in s and 'dst_index' not in s and 'current_' not in s


def resolve_local(fn, name):
    """what a local name stands for, with the chain of single-assignment aliases behind it followed (head_ptr = head.data; head = self.heads[pa_index] ...)"""
    from verif_static import norm as N
    defs = N.local_defs([fn])
    # names assigned in loops / re-assigned are not aliases
    if name not in defs:
        return None
    return N.inline(defs[name], defs)


def resolve_deep(fn, e):
    from verif_static import norm as N
    return N.inline(e, N.local_defs([fn]))


def rule_impl(chk, rel, cls, fn):
    who = '%s.%s' % (cls.name, fn.name)
    # small helpers of the module (a cast-and-count one-liner, say) are inlined; the methods of the class are the vocabulary and stay calls
    try:
        fn = M.inline_helpers(cls, fn, keep=set(M.methods(cls)), module=M.cy(rel))
    except Exception:
        pass
    fn = M.counter_loops_as_for(fn)        # a pass over a table written with a counter and `while` is the same pass
    args = M.arg_names(fn)
    if len(args) < 3:
        chk.undecided('ordered-indices', who + ':signature', node=fn, file=rel, func=who, detail='unexpected signature %s' % args)
        return
    idxname, out = args[1], args[2]
    g = C.build_cfg(fn)
    resets = [n.id for n in g.nodes if n.ast is not None and isinstance(n.ast, ast.Expr) and
              M.call_name(n.ast.value) in (out + '.reset', out + '.c_reset')]
    apps = [n for n in g.nodes if n.ast is not None and isinstance(n.ast, ast.Expr) and
            M.call_name(n.ast.value) in (out + '.append', out + '.c_append')]
    if not apps:
        chk.violated('ordered-indices', who + ':appends', node=fn, file=rel, func=who, detail='no index is ever appended')
        return
    chk.decide(bool(resets) and all(any(g.dominates(r, a.id) for r in resets) for a in apps), 'ordered-indices',
               who + ':output-reset', node=fn, file=rel, func=who,
               detail_bad='the output list is not emptied before indices are appended (indices of a previous call remain)',
               detail_ok='%s.reset() dominates every append' % out)
    chk.decide(len(apps) == 1, 'ordered-indices', who + ':one-append-site', node=apps[0].ast, file=rel, func=who,
               detail_bad='%d append sites: a slot may contribute more than one index' % len(apps), detail_ok='single append site')
    app = apps[0].ast
    loop = M.enclosing(app, (ast.For, ast.While))
    if loop is None:
        chk.violated('ordered-indices', who + ':loop', node=app, file=rel, func=who, detail='append is not inside a loop over the slots')
        return
    guard = M.enclosing(app, (ast.If,))
    cond_inside = guard is not None and M.enclosing(guard, (ast.For, ast.While)) is not None and guard.lineno > \
        (M.enclosing(app, (ast.For,)) or loop).lineno
    if isinstance(loop, ast.For):
        # table traversal: for j in range(N): out.append(T[j])
        jv = U(loop.target)
        rng = loop.iter
        n_expr = rng.args[-1] if isinstance(rng, ast.Call) and M.call_name(rng) == 'range' and len(rng.args) in (1,) else None
        starts0 = n_expr is not None
        nval = n_expr
        if isinstance(nval, ast.Name):
            nval = resolve_local(fn, nval.id)
        ns = compact(nval) if nval is not None else ''
        # the count must be the particle count of the same array
        count_ok = False
        if 'get_number_of_particles()' in ns:
            recv = nval.func.value if isinstance(nval, ast.Call) else None
            if isinstance(recv, ast.Name):
                recv = resolve_local(fn, recv.id)
            count_ok = recv is not None and compact(recv) == 'self.pa_wrappers[%s]' % idxname
        elif ns.endswith('.num_particles') or ns.endswith('.length'):
            count_ok = per_array(nval, idxname)
        chk.decide(starts0 and count_ok, 'ordered-indices', who + ':slot-count', node=loop, file=rel, func=who,
                   detail_bad='loop bound %s is not 0..(particle count of array %s)' % (U(rng), idxname),
                   detail_ok='one pass over the %s slots of array %s' % (ns, idxname))
        arg = app.value.args[0]
        subs = [s for s in ast.walk(arg) if isinstance(s, ast.Subscript) and compact(s.slice) == jv]
        ok = False
        tab = None
        if subs:
            tab = subs[0].value
            tv = resolve_local(fn, tab.id) if isinstance(tab, ast.Name) else tab
            ok = tv is not None and per_array(tv, idxname)
            # other array-index arguments (e.g. _get_id(key, pa_index)) must use the same index
            for c in M.calls(arg):
                for a in c.args:
                    if isinstance(a, ast.Name) and a.id.endswith('index') and a.id != idxname:
                        ok = False
        chk.decide(ok and not cond_inside, 'ordered-indices', who + ':slot-table', node=app, file=rel, func=who,
                   detail_bad='appended value %s is not the j-th entry of the per-array table of array %s, or is conditional' % (U(arg), idxname),
                   detail_ok='appends table[%s] of array %s unconditionally' % (jv, idxname))
    else:
        # linked-list traversal: for each cell follow head -> next to the sentinel
        outer = M.enclosing(loop, (ast.For,))
        cur = compact(app.value.args[0])
        test = compact(loop.test)
        sentinel = test in ('%s!=UINT_MAX' % cur, 'UINT_MAX!=%s' % cur)
        adv = [a for a in loop.body if isinstance(a, ast.Assign) and compact(a.targets[0]) == cur]
        adv_ok = bool(adv) and compact(adv[-1].value).endswith('[%s]' % cur)
        nxt = adv[-1].value.value if adv_ok and isinstance(adv[-1].value, ast.Subscript) else None
        if isinstance(nxt, ast.Attribute) and nxt.attr == 'data':
            nxt = nxt.value
        nv = resolve_local(fn, nxt.id) if isinstance(nxt, ast.Name) else nxt
        nxt_ok = nv is not None and per_array(nv, idxname)
        init = None
        if outer is not None:
            for a in outer.body:
                if isinstance(a, ast.Assign) and compact(a.targets[0]) == cur and a.lineno < loop.lineno:
                    init = a
        iv = U(outer.target) if outer is not None else None
        head_ok = False
        if init is not None and isinstance(init.value, ast.Subscript) and compact(init.value.slice) == iv:
            hd = init.value.value
            if isinstance(hd, ast.Attribute) and hd.attr == 'data':
                hd = hd.value
            hv = resolve_local(fn, hd.id) if isinstance(hd, ast.Name) else hd
            head_ok = hv is not None and per_array(hv, idxname)
        cells_ok = outer is not None and compact(resolve_deep(fn, outer.iter)) in ('range(self.n_cells)',)
        chk.decide(sentinel and adv_ok and nxt_ok, 'ordered-indices', who + ':chain-to-sentinel', node=loop, file=rel, func=who,
                   detail_bad='cell chain is not followed through next[%s] of array %s until UINT_MAX' % (cur, idxname),
                   detail_ok='while %s: append; %s' % (U(loop.test), U(adv[-1]) if adv else ''))
        chk.decide(head_ok and cells_ok and not cond_inside, 'ordered-indices', who + ':every-cell', node=outer or loop, file=rel, func=who,
                   detail_bad='traversal does not start from head[cell] of array %s for every cell' % idxname,
                   detail_ok='all n_cells chains of array %s' % idxname)


def rule_tree_count(chk):
    """the trees hand out `num_particles` ids: that count is the live particle count of the wrapped array, recorded by the same call that fills the id table"""
    rel = 'pysph/base/octree.pyx'
    t = M.cy(rel)
    n = 0
    for cls in M.classes(t):
        for name, fn in M.methods(cls).items():
            if 'pa_wrapper' not in M.arg_names(fn):
                continue
            fills = [a for a in ast.walk(fn) if isinstance(a, ast.Assign) and compact(a.targets[0]) == 'self.pids']
            if not fills:
                continue
            who = '%s.%s' % (cls.name, name)
            n += 1
            ws = [a for a in ast.walk(fn) if isinstance(a, ast.Assign) and compact(a.targets[0]) == 'self.num_particles']
            ok = bool(ws)
            for a in ws:
                v = a.value
                if isinstance(v, ast.Name):
                    v = resolve_local(fn, v.id)
                ok = ok and v is not None and compact(v) == 'pa_wrapper.get_number_of_particles()'
            g = C.build_cfg(fn)
            wn = [g.node_of(a) for a in ws]
            ok = ok and all(x is not None for x in wn) and g.must_pass(g.entry, g.exit, wn)
            chk.decide(ok, 'ordered-indices', who + ':count-is-live', node=ws[0] if ws else fn, file=rel, func=who,
                       detail_bad='the number of ids the tree hands out (self.num_particles) is %s, not pa_wrapper.get_number_of_particles() recorded on every path of the build: '
                                  'the serial builder leaves the root\'s own counter at 0, so re-ordering gets an empty or short index list'
                                  % ([compact(a.value) for a in ws] or 'never set'), detail_ok='self.num_particles = pa_wrapper.get_number_of_particles()')
    chk.floor('tree builders that fill the id table', n, 2)


def rule_tree_leaves(chk):
    """the id table of a tree (self.pids, read by the leaves and by get_spatially_ordered_indices) is complete when a builder returns: (a) a leaf made by copying its ids to
    self.pids + self._next_pid advances self._next_pid by the number copied before anything else is placed there; (b) in a builder that writes the table element by element
    (directly or through a pointer alias of it) every return can only be reached after such writes"""
    rel = 'pysph/base/octree.pyx'
    t = M.cy(rel)
    na = nb = 0
    for cls in M.classes(t):
        for name, fn in M.methods(cls).items():
            who = '%s.%s' % (cls.name, name)
            M.set_parents(fn)
            # (a)
            for c in [c for c in M.calls(fn) if M.call_name(c) == 'copy' and len(c.args) == 3 and compact(c.args[2]) == 'self.pids+self._next_pid']:
                na += 1
                src = compact(c.args[0].func.value) if isinstance(c.args[0], ast.Call) and isinstance(c.args[0].func, ast.Attribute) else None
                st = c
                while not isinstance(st, ast.stmt):
                    st = st.parent
                blk = None
                for f_ in ('body', 'orelse', 'finalbody'):
                    if st in (getattr(st.parent, f_, None) or []):
                        blk = getattr(st.parent, f_)
                adv = False
                for nxt in (blk[blk.index(st) + 1:] if blk else []):
                    if isinstance(nxt, (ast.Continue, ast.Break, ast.Return)):
                        break
                    if isinstance(nxt, ast.AugAssign) and isinstance(nxt.op, ast.Add) and compact(nxt.target) == 'self._next_pid' and src is not None and compact(nxt.value) == src + '.size()':
                        adv = True
                        break
                    if any(M.call_name(x) == 'copy' for x in M.calls(nxt)):
                        break
                chk.decide(adv, 'ordered-indices', who + ':leaf-ids-claim-their-slots@%d' % c.lineno, node=c, file=rel, func=who,
                           detail_bad='ids of a leaf are copied to self.pids + self._next_pid but self._next_pid is not advanced by %s.size() before the block is left: the next leaf '
                                      'overwrites them, so the ordered index list loses these particles and ends in uninitialised entries' % (src or 'the copied list'),
                           detail_ok='copy; self._next_pid += %s.size()' % src)
            # (b)
            alias = set(['self.pids']) | set(compact(a.target if isinstance(a, ast.AnnAssign) else a.targets[0]) for a in ast.walk(fn)
                                            if isinstance(a, (ast.Assign, ast.AnnAssign)) and a.value is not None and compact(a.value) == 'self.pids')
            stores = [a for a in ast.walk(fn) if isinstance(a, ast.Assign) and isinstance(a.targets[0], ast.Subscript) and compact(a.targets[0].value) in alias]
            if not stores:
                continue
            nb += 1
            g = C.build_cfg(fn)
            sn = [g.node_of(a) for a in stores]
            sn = [x for x in sn if x is not None]
            reach = set()
            for x in sn:
                reach |= set(g.reachable(x))
            bad = [n_ for n_ in g.nodes if isinstance(n_.ast, ast.Return) and n_.id not in reach]
            chk.decide(bool(sn) and not bad, 'ordered-indices', who + ':id-table-written-before-every-return', node=bad[0].ast if bad else fn, file=rel, func=who,
                       detail_bad='`%s` is reached without the pass that writes the particle ids into the table (%s): the leaves and the ordered index list then read '
                                  'uninitialised memory' % (U(bad[0].ast) if bad else '', sorted(alias)), detail_ok='every return follows writes to %s' % sorted(alias))
    chk.floor('leaf copies in the tree builders', na, 2)
    chk.floor('builders writing the id table element by element', nb, 2)


def rule_apply(chk):
    """NNPS.spatially_order_particles and Solver.reorder_particles decided on model runs (E8 interpreter on the lowered Cython / Python syntax trees): a model NNPS with two
    wrapped arrays (the second with four properties, one of them strided and missing from its load-balancing list) records what is permuted with what; a model solver with three
    arrays records the order of re-ordering and the neighbour update."""
    from verif_static import emit as EM, absint as AI
    t = M.cy(NB)
    fn = M.find_method(t, 'NNPS', 'spatially_order_particles')
    who = 'NNPS.spatially_order_particles'
    try:
        it = EM.interpreter()
        EM.model_module(it, '<nb>', t)
        log = []

        def carray(name):
            def align(i, args, kwargs, node, env):
                log.append(('align', name, args[0] if args else None, args[1] if len(args) > 1 else kwargs.get('stride', 1)))
            return EM.mock(name=name, c_align_array=align, align_array=align)

        def pa(nm, props, strides):
            return EM.mock(name=nm, properties=dict((p_, carray(nm + '.' + p_)) for p_ in props), stride=dict(strides),
                           align_particles=lambda i, a, k, n, e: log.append(('align_particles', nm)), get_lb_props=lambda i, a, k, n, e: props[:2], lb_props=props[:2])
        pas = [pa('a0', ['x', 'm'], {}), pa('a1', ['x', 'A', 'tag', 'u'], {'A': 4})]
        nn = EM.instance(it, '<nb>', 'NNPS', pa_wrappers=[EM.mock(pa=p_) for p_ in pas], particles=pas,
                         get_spatially_ordered_indices=lambda i, args, k, n, e: log.append(('fill', args[0], args[1] if len(args) > 1 else None)))
        EM.call(it, nn, 'spatially_order_particles', 1)
        fills = [l for l in log if l[0] == 'fill']
        aligns = [l for l in log if l[0] == 'align']
        chk.decide(sorted(l[1] for l in aligns) == ['a1.A', 'a1.tag', 'a1.u', 'a1.x'], 'apply-permutation', 'every-property', node=fn, file=NB, func=who,
                   detail_bad='for array 1 of the model (properties x, A, tag, u) the permutation is applied to %s: it must be applied to every property of that array, once each' % [l[1] for l in aligns],
                   detail_ok='every property of the array, once')
        chk.decide(len(fills) == 1 and fills[0][1] == 1 and bool(aligns) and all(l[2] is fills[0][2] for l in aligns), 'apply-permutation', 'one-index-array', node=fn, file=NB, func=who,
                   detail_bad='properties are permuted with an index array other than the one filled by get_spatially_ordered_indices(pa_index, .)', detail_ok='the single list filled for pa_index')
        strides = dict((l[1], l[3]) for l in aligns)
        chk.decide(all(strides.get(k_) == v_ for k_, v_ in (('a1.A', 4), ('a1.x', 1), ('a1.tag', 1), ('a1.u', 1)) if k_ in strides) and 'a1.A' in strides, 'apply-permutation', 'own-stride',
                   node=fn, file=NB, func=who, detail_bad='strides used: %s (A has stride 4, the others 1)' % strides, detail_ok='stride looked up for the same key')
        chk.decide(all(l[1].startswith('a1.') for l in aligns) and bool(aligns), 'apply-permutation', 'same-array', node=fn, file=NB, func=who,
                   detail_bad='permuted arrays: %s (asked for array 1)' % [l[1] for l in aligns], detail_ok='the array wrapped at pa_index')
        last_align = max([i for i, l in enumerate(log) if l[0] == 'align'] or [-1])
        ok_here = any(l == ('align_particles', 'a1') and i > last_align for i, l in enumerate(log))
    except (AI.Unsupported, AI.Raised) as e:
        chk.undecided('apply-permutation', 'model-run', node=fn, file=NB, func=who, detail='not interpretable on the model: %s' % e)
        ok_here = False
    sol = M.py(SOL)
    rp = M.find_method(sol, 'Solver', 'reorder_particles')
    slog = []
    try:
        it2 = EM.interpreter()
        nn2 = EM.mock(spatially_order_particles=lambda i, args, k, n, e: slog.append(('order', args[0])), update=lambda i, args, k, n, e: slog.append(('update',)),
                      update_domain=lambda i, args, k, n, e: slog.append(('update_domain',)))
        # three arrays; the last one holds a single particle (an inlet that is nearly empty): whether or not it is re-ordered itself, the others are and the neighbours are rebuilt
        COUNTS = (5, 7, 1)
        parr = [EM.mock(name='p%d' % k_, align_particles=lambda i, a, k, n, e, k_=k_: slog.append(('align', k_)),
                        get_number_of_particles=lambda i, a, k, n, e, k_=k_: COUNTS[k_], num_real_particles=COUNTS[k_]) for k_ in range(3)]
        # serial and parallel set-ups alike (pm = None / a parallel manager)
        pm_log = []
        for pm_ in (None, EM.mock(update=lambda i, a, k, n, e: pm_log.append('pm.update'), update_remote_particle_properties=lambda i, a, k, n, e: None)):
            so = EM.instance(it2, SOL, 'Solver', particles=parr, nnps=nn2, pm=pm_, in_parallel=pm_ is not None, comm=None, rank=0)
            n0 = len(slog)
            EM.call(it2, so, 'reorder_particles')
            seg = slog[n0:]
            lo_ = max([i for i, l in enumerate(seg) if l[0] == 'order'] or [-1])
            if not any(l[0] == 'update' and i > lo_ for i, l in enumerate(seg)):
                slog.append(('missing-update', 'pm is None' if pm_ is None else 'with a parallel manager'))
        slog_first = slog
        first_run = slog[:([i for i, l in enumerate(slog) if l[0] == 'update'] or [len(slog)])[0]]
        orders = [l[1] for l in first_run if l[0] == 'order']
        chk.decide(sorted(orders) in ([0, 1, 2], [0, 1]), 'reorder-all-arrays-then-update', 'all-arrays', node=rp, file=SOL, func='Solver.reorder_particles',
                   detail_bad='with three arrays (5, 7 and 1 particles) the solver re-orders %s' % orders, detail_ok='every array (with more than one particle) once')
        chk.decide(not [l for l in slog if l[0] == 'missing-update'], 'reorder-all-arrays-then-update', 'update-after', node=rp, file=SOL, func='Solver.reorder_particles',
                   detail_bad='the neighbour structures are not rebuilt after the particles were permuted (stale indices): %s' % slog, detail_ok='nnps.update() after the last re-ordering')
        # the index lists are read from the binning structures: those must describe the arrays as they are - update_domain() (wrap, ghosts removed and re-created) changes
        # the arrays, so no re-ordering may follow it without a re-binning update() in between
        stale_at, binned = None, True
        for l in slog:
            if l[0] == 'update_domain':
                binned = False
            elif l[0] == 'update':
                binned = True
            elif l[0] == 'order' and not binned and stale_at is None:
                stale_at = l
        chk.decide(stale_at is None, 'reorder-all-arrays-then-update', 'binning-current-when-ordering', node=rp, file=SOL, func='Solver.reorder_particles',
                   detail_bad='array %s is re-ordered after nnps.update_domain() without a re-binning nnps.update() in between (calls: %s): the index list comes from structures built for '
                              'the arrays before their ghosts were re-created - not a permutation of the current particles' % (stale_at[1] if stale_at else '', [l_[0] for l_ in slog][:8]),
                   detail_ok='nothing changes the arrays between the last binning and the re-ordering')
        ok_solver = all(('align', k_) in slog for k_ in range(3))
    except (AI.Unsupported, AI.Raised) as e:
        chk.undecided('reorder-all-arrays-then-update', 'model-run', node=rp, file=SOL, func='Solver.reorder_particles', detail='not interpretable on the model: %s' % e)
        ok_solver = False
    chk.decide(ok_here or ok_solver, 'real-first-after-permutation', 'align', node=fn, file=NB, func=who,
               detail_bad='after the permutation nobody re-establishes "Local particles occupy the first num_real_particles slots": '
                          'with a periodic/mirror domain the ordering interleaves ghosts with real particles, and stage loops '
                          'run over range(num_real_particles)',
               detail_ok='align_particles() after the permutation')


def main(chk):
    chk.explanation = ('For every CPU implementation of get_spatially_ordered_indices: output reset dominates appends, a single '
                       'unconditional append per slot of the per-array table (or per chain element up to the sentinel), table and '
                       'count selected by the same pa_index; the one index list is applied to every property with its own '
                       'stride; alignment re-established after the permutation; solver re-orders all arrays then updates.')
    n = 0
    files = cpu_nnps_files()
    for rel in files:
        t = M.cy(rel)
        for cls in M.classes(t):
            fn = M.methods(cls).get('get_spatially_ordered_indices')
            if fn is not None:
                n += 1
                rule_impl(chk, rel, cls, fn)
    chk.floor('implementations of get_spatially_ordered_indices', n, 5)
    chk.unit('files', files + [NB, SOL])
    rule_apply(chk)
    rule_tree_count(chk)
    rule_tree_leaves(chk)
    # the re-ordering ends with align_particles(): that it builds a permutation (no particle duplicated or lost) is the rule shared with C16 / C06
    import importlib.util
    spec16 = importlib.util.spec_from_file_location('c16mod', os.path.join(os.path.dirname(os.path.abspath(__file__)), 'c16.py'))
    c16 = importlib.util.module_from_spec(spec16)
    spec16.loader.exec_module(c16)
    c16.rule_alignment(chk)
    # the ordered-index lists are read from the search structures: update() rebuilds the structure of every array, also of one that "looks unchanged" (rule shared with C01)
    spec01 = importlib.util.spec_from_file_location('c01mod', os.path.join(os.path.dirname(os.path.abspath(__file__)), 'c01.py'))
    c01 = importlib.util.module_from_spec(spec01)
    spec01.loader.exec_module(c01)
    c01.rule_refresh_unconditional(chk)
    c01.rule_sorted_on_every_refill(chk)
    # the particle id read back from a key is the one that was packed into it: every field of the keys is wide enough for its largest value (rule shared with C01)
    c01.rule_field_widths(chk)
    c01.rule_tables_emptied(chk)
    # ... and no cached neighbour list outlives the re-ordering: every entry of every cache is invalidated by the update that follows it (rule shared with C01)
    c01.rule_cache(chk)
    chk.assume('that head/next, pid and key tables hold each particle exactly once is not decided (see C01)')


if __name__ == '__main__':
    run_check('C17', main)
