#!/venv/bin/python
"""Re-run the checks against every kept seeded change (already confirmed by seed_eval.py) and refresh the
`detected_by_check` / `check_reports` fields of its meta.json.

  tools/seed_recheck.py [ID-k ...] [--all-checks]

For each /verif/seeded/<ID>-<k>/patch.diff: git -C /repo apply, ./check <ID> (quick, then thorough when quick is silent),
git -C /repo checkout -- .  Evidence goes to a scratch directory.  With --all-checks every registered check is run and the
ids of the ones that fire are stored in `also_detected_by`.  Prints the table used in DESIGN.md.
"""
import json, os, shutil, subprocess, sys, tempfile
ROOT = '/verif/seeded'
args = [a for a in sys.argv[1:] if not a.startswith('--')]
allc = '--all-checks' in sys.argv
seeds = args or sorted(d for d in os.listdir(ROOT) if os.path.exists(os.path.join(ROOT, d, 'patch.diff')))
man = json.load(open('/verif/MANIFEST.json'))
claimed = sorted(c['property_id'] for c in man['checks'])


def sh(cmd):
    return subprocess.run(cmd, shell=True, stdout=subprocess.PIPE, stderr=subprocess.STDOUT, text=True)


dirty = sh('git -C /repo status --short --untracked-files=no').stdout.strip()
if dirty:
    sys.exit('/repo is not clean:\n' + dirty)
ev = tempfile.mkdtemp(prefix='sr_ev_')
rows = []
try:
    for sd in seeds:
        d = os.path.join(ROOT, sd)
        mp = os.path.join(d, 'meta.json')
        meta = json.load(open(mp))
        pid = meta['property']
        r = sh('git -C /repo apply %s/patch.diff' % d)
        if r.returncode:
            rows.append((sd, 'PATCH DOES NOT APPLY', ''))
            continue
        try:
            fired, reports, others = False, [], []
            for tier in ('quick', 'thorough'):
                r = sh('cd /verif && VERIF_EVIDENCE_DIR=%s timeout 900 ./check %s --tier %s' % (ev, pid, tier))
                if r.returncode == 1:
                    fired = True
                    reports = [l.strip() for l in r.stdout.splitlines() if l.startswith('  ') and ' at ' in l and not l.startswith(('  rule ', '  note'))][:6]
                    break
                if r.returncode not in (0, 1):
                    reports = ['check exit %d: %s' % (r.returncode, r.stdout.strip().splitlines()[-1:] or '')]
            if allc:
                for other in claimed:
                    if other == pid:
                        continue
                    r = sh('cd /verif && VERIF_EVIDENCE_DIR=%s timeout 900 ./check %s --tier quick' % (ev, other))
                    if r.returncode == 1:
                        others.append(other)
                meta['also_detected_by'] = others
        finally:
            sh('git -C /repo checkout -- .')
        meta['detected_by_check'] = fired
        meta['check_reports'] = reports
        json.dump(meta, open(mp, 'w'), indent=1)
        rules = sorted(set(x.split(' ')[0] for x in reports)) if fired else []
        rows.append((sd, 'detected' if fired else 'MISSED', ', '.join(rules) + (' (+%s)' % ','.join(others) if others else '')))
finally:
    shutil.rmtree(ev, ignore_errors=True)
    sh('git -C /repo checkout -- .')
for r in rows:
    print('%-8s %-10s %s' % r)
