"""E8 - abstract interpretation of scheme set-up code over "what a configuration builds".

A small interpreter for the subset of Python the Scheme classes use in __init__, attributes_changed, get_equations,
configure_solver and setup_properties (and the particle-array factories they call).  Plain data (strings, lists, sets, dicts,
numbers) is computed exactly; everything else is one of

  Sym(name)      an option of the scheme whose value is not fixed: a comparison with a constant or a truth test *decides* it,
                 and the decision is shared by every method evaluated under the same configuration;
  Opaque(key)    a value we do not model (numbers derived from options, numpy arrays ...): `key` is built structurally from the
                 operands, so the same test written in two methods is the same decision;
  Obj            the scheme instance and abstract particle arrays (name, properties, constants, stride, output arrays, top);
  Inst           an instance of a repository class that is only recorded (Equation, Group, IntegratorStep, Integrator, Solver ...).

All configurations are enumerated by depth-first search over the decisions actually encountered.  Nothing from the
repository is imported or executed: functions are interpreted from their syntax trees.
"""
import ast

from . import model as M
from .core import AnalysisError


class Unsupported(Exception):
    pass


class Raised(Exception):
    """the interpreted code raises (raise statement, KeyError on our abstract dictionaries ...)"""
    def __init__(self, what, node=None, rel=None):
        Exception.__init__(self, what)
        self.what, self.node, self.rel = what, node, rel


class _Return(Exception):
    def __init__(self, v):
        self.v = v


class _Break(Exception):
    pass


class _Continue(Exception):
    pass


class Opaque(object):
    def __init__(self, key):
        self.key = key

    def __repr__(self):
        return 'Opaque(%s)' % self.key


class Sym(object):
    def __init__(self, name, nullable=True):
        self.name = name
        self.key = name
        self.nullable = nullable     # False: documented as a number / flag, `is None` tests on it are never true

    def __repr__(self):
        return 'Sym(%s)' % self.name


class Obj(object):
    def __init__(self, kind, **attrs):
        self.kind = kind
        self.attrs = attrs

    def __repr__(self):
        return 'Obj(%s %s)' % (self.kind, self.attrs.get('name', ''))


class ClassRef(object):
    def __init__(self, rel, node):
        self.rel, self.node = rel, node

    def __repr__(self):
        return 'Class(%s)' % self.node.name


class FuncRef(object):
    def __init__(self, rel, node, self_obj=None, cls=None):
        self.rel, self.node, self.self_obj, self.cls = rel, node, self_obj, cls


class Inst(object):
    def __init__(self, cls, args, kwargs, node=None, rel=None):
        self.cls, self.args, self.kwargs, self.node, self.rel = cls, args, kwargs, node, rel
        self.attrs = {}

    def __repr__(self):
        return 'Inst(%s)' % self.cls.node.name


class External(object):
    """a module / object outside the repository (numpy, math, compyle ...)"""
    def __init__(self, key):
        self.key = key


class SuperRef(object):
    def __init__(self, cls, obj):
        self.cls, self.obj = cls, obj


def key_of(v):
    if isinstance(v, (Opaque, Sym, External)):
        return v.key
    if isinstance(v, Obj):
        return '<%s>' % v.kind
    if isinstance(v, (list, tuple, set, frozenset, dict)):
        return '<%s>' % type(v).__name__
    return repr(v)


def unknown(v):
    return isinstance(v, (Opaque, Sym, External))


class Config(object):
    """the decisions of one configuration; explore() enumerates them depth first"""

    def __init__(self, prefix):
        self.prefix = list(prefix)
        self.trace = []          # (key, chosen value, domain)
        self.values = {}

    def decide(self, key, domain):
        if key in self.values:
            return self.values[key]
        i = len(self.trace)
        v = self.prefix[i][1] if i < len(self.prefix) else domain[0]
        if i < len(self.prefix) and self.prefix[i][0] != key:
            raise AnalysisError('non-deterministic decision order: %r vs %r' % (self.prefix[i][0], key))
        self.trace.append((key, v, list(domain)))
        self.values[key] = v
        return v


def explore(run, cap=20000):
    """run(config) for every configuration; yields (config, result-or-exception)"""
    todo = [[]]
    n = 0
    while todo:
        prefix = todo.pop()
        cfg = Config(prefix)
        try:
            res = run(cfg)
        except Raised as e:
            res = e
        n += 1
        if n > cap:
            raise AnalysisError('more than %d configurations' % cap)
        for i in range(len(prefix), len(cfg.trace)):
            key, v, dom = cfg.trace[i]
            for alt in dom[1:]:
                todo.append([(k, vv) for k, vv, d in cfg.trace[:i]] + [(key, alt)])
        yield cfg, res


class Interp(object):
    def __init__(self, ci, cfg, intrinsics=None):
        self.ci = ci                  # model.ClassIndex over the files that may be interpreted
        self.cfg = cfg
        self.mods = {}
        self.insts = []               # every Inst created, in order
        self.intrinsics = intrinsics or {}
        self.depth = 0
        self.steps = 0

    # -- modules -----------------------------------------------------------------
    def module_tree(self, rel):
        if rel not in self.mods:
            try:
                t = self.ci.trees.get(rel) or M.py(rel)
            except Exception:
                t = None
            self.mods[rel] = (t, {})
        return self.mods[rel]

    def mod_to_rel(self, mod):
        import os
        for ext in ('.py', '/__init__.py'):
            r = mod.replace('.', '/') + ext
            if os.path.exists(os.path.join(M.REPO, r)):
                return r
        return None

    def lookup_global(self, rel, name, node=None):
        t, cache = self.module_tree(rel)
        if name in cache:
            return cache[name]
        if t is None:
            return External(name)
        found = None
        for s in t.body:
            if isinstance(s, ast.FunctionDef) and s.name == name:
                found = FuncRef(rel, s)
            elif isinstance(s, ast.ClassDef) and s.name == name:
                found = ClassRef(rel, s)
            elif isinstance(s, ast.Assign) and any(isinstance(tg, ast.Name) and tg.id == name for tg in s.targets):
                cache[name] = Opaque(name)      # cycle guard
                found = self.ev(s.value, {'__rel__': rel, '__globals__': True})
            elif isinstance(s, (ast.ImportFrom, ast.Import)):
                got = self.from_import(rel, s, name)
                if got is not None:
                    found = got
            elif isinstance(s, (ast.Try, ast.If)):
                for s2 in ast.walk(s):
                    if isinstance(s2, (ast.ImportFrom, ast.Import)):
                        got = self.from_import(rel, s2, name)
                        if got is not None and found is None:
                            found = got
        if found is None:
            if name in BUILTINS:
                found = BUILTINS[name]
            else:
                found = Opaque(name)
        cache[name] = found
        return found

    def from_import(self, rel, s, name):
        if isinstance(s, ast.Import):
            for a in s.names:
                if (a.asname or a.name.split('.')[0]) == name:
                    return External(a.name)
            return None
        for a in s.names:
            if (a.asname or a.name) == name or a.name == '*':
                mod = s.module or ''
                if s.level:
                    base = rel.split('/')[:-1]
                    base = base[:len(base) - (s.level - 1)]
                    mod = '.'.join(base + ([s.module] if s.module else []))
                r = self.mod_to_rel(mod)
                if a.name == '*':
                    if r is None:
                        continue
                    got = self.lookup_global(r, name)
                    if isinstance(got, Opaque) and got.key == name:
                        continue
                    return got
                if r is None:
                    # a sub-module or an external module
                    r2 = self.mod_to_rel(mod + '.' + a.name)
                    if r2 is not None:
                        return External(mod + '.' + a.name)
                    return External(mod + '.' + a.name)
                if r.endswith('.pyx'):
                    return External(mod + '.' + a.name)
                return self.lookup_global(r, a.name)
        return None

    # -- truth and decisions -------------------------------------------------------
    def truth(self, v):
        if isinstance(v, Sym):
            return self.cfg.decide(('truth', v.name), [True, False]) if not self.sym_const(v) else bool(self.sym_const(v)[0])
        if isinstance(v, (Opaque, External)):
            return self.cfg.decide(('truth', v.key), [True, False])
        if isinstance(v, (Obj, Inst, ClassRef, FuncRef)):
            return True
        try:
            return bool(v)
        except ValueError as ex:
            # a model value whose truth is an error in the modelled library (an array of several elements)
            raise Raised('ValueError: %s' % ex, None, None)

    def sym_const(self, s):
        """(constant,) when an earlier decision fixed the option to a constant"""
        for k, v in self.cfg.values.items():
            if k[0] == 'eq' and k[1] == s.name and v is True:
                return (k[2],)
        return None

    def sym_equals(self, s, c):
        if isinstance(c, (Opaque, Sym, Obj, Inst)):
            return Opaque('(%s==%s)' % (s.key, key_of(c)))
        if c is None and not s.nullable:
            return False
        fixed = self.sym_const(s)
        if fixed is not None:
            return fixed[0] == c and type(fixed[0]) == type(c)
        tk = ('truth', s.name)
        if tk in self.cfg.values and bool(c) != self.cfg.values[tk]:
            return False
        r = self.cfg.decide(('eq', s.name, c), [False, True])
        if r and tk not in self.cfg.values:
            self.cfg.values[tk] = bool(c)
        return r

    # -- expressions -----------------------------------------------------------------
    def ev(self, e, env):
        self.steps += 1
        if self.steps > 400000:
            raise Unsupported('evaluation budget exhausted')
        m = getattr(self, 'e_' + type(e).__name__, None)
        if m is None:
            raise Unsupported('expression %s' % type(e).__name__)
        return m(e, env)

    def e_Constant(self, e, env):
        return e.value

    def e_Name(self, e, env):
        sc = env
        while sc is not None:
            if e.id in sc:
                return sc[e.id]
            sc = sc.get('__parent__')
        return self.lookup_global(env['__rel__'], e.id, e)

    def e_List(self, e, env):
        out = []
        for x in e.elts:
            if isinstance(x, ast.Starred):
                out.extend(self.iterate(self.ev(x.value, env), x))
            else:
                out.append(self.ev(x, env))
        return out

    def e_Tuple(self, e, env):
        return tuple(self.e_List(e, env))

    def e_Set(self, e, env):
        return set(self.hashable(x) for x in self.e_List(e, env))

    def e_Dict(self, e, env):
        d = {}
        for k, v in zip(e.keys, e.values):
            if k is None:
                d.update(self.ev(v, env))
            else:
                d[self.hashable(self.ev(k, env))] = self.ev(v, env)
        return d

    def hashable(self, v):
        if isinstance(v, list):
            return tuple(v)
        return v

    def e_JoinedStr(self, e, env):
        parts = []
        for v in e.values:
            if isinstance(v, ast.Constant):
                parts.append(str(v.value))
            else:
                x = self.ev(v.value, env)
                if unknown(x) or isinstance(x, (Obj, Inst)):
                    return Opaque('fstring(%s)' % key_of(x))
                parts.append(str(x))
        return ''.join(parts)

    def e_IfExp(self, e, env):
        return self.ev(e.body, env) if self.truth(self.ev(e.test, env)) else self.ev(e.orelse, env)

    def e_BoolOp(self, e, env):
        v = None
        for x in e.values:
            v = self.ev(x, env)
            t = self.truth(v)
            if isinstance(e.op, ast.And) and not t:
                return v if not unknown(v) else False
            if isinstance(e.op, ast.Or) and t:
                return v if not unknown(v) else True
        return v if not unknown(v) else isinstance(e.op, ast.And)

    def e_UnaryOp(self, e, env):
        v = self.ev(e.operand, env)
        if isinstance(e.op, ast.Not):
            return not self.truth(v)
        if unknown(v):
            return Opaque('(%s%s)' % (type(e.op).__name__, key_of(v)))
        if isinstance(e.op, ast.USub):
            return -v
        if isinstance(e.op, ast.UAdd):
            return +v
        raise Unsupported('unary operator')

    def e_BinOp(self, e, env):
        a, b = self.ev(e.left, env), self.ev(e.right, env)
        if unknown(a) or unknown(b) or isinstance(a, (Obj, Inst)) or isinstance(b, (Obj, Inst)):
            return Opaque('(%s %s %s)' % (key_of(a), type(e.op).__name__, key_of(b)))
        try:
            return OPS[type(e.op)](a, b)
        except Exception as ex:
            if isinstance(ex, ZeroDivisionError):
                return Opaque('div0')
            raise Unsupported('binary operator %s on %s/%s: %s' % (type(e.op).__name__, type(a).__name__, type(b).__name__, ex))

    def e_Compare(self, e, env):
        left = self.ev(e.left, env)
        res = True
        for op, rn in zip(e.ops, e.comparators):
            right = self.ev(rn, env)
            r = self.compare(op, left, right)
            if unknown(r):
                if len(e.ops) == 1:
                    return r
                r = self.truth(r)
            if len(e.ops) == 1 and not isinstance(r, (bool, int)) and hasattr(type(r), '__bool__'):
                return r            # a model value whose truth is decided (or is an error) where it is tested
            if not self.truth(r):
                return False
            left = right
        return res

    def compare(self, op, a, b):
        if isinstance(op, (ast.Eq, ast.NotEq, ast.Is, ast.IsNot)):
            neg = isinstance(op, (ast.NotEq, ast.IsNot))
            if isinstance(a, Sym) or isinstance(b, Sym):
                s, c = (a, b) if isinstance(a, Sym) else (b, a)
                r = self.sym_equals(s, c)
                if unknown(r):
                    return r
                return (not r) if neg else r
            if unknown(a) or unknown(b):
                if isinstance(op, (ast.Is, ast.IsNot)) and (a is None or b is None) and not isinstance(a, Sym) and not isinstance(b, Sym):
                    # an opaque value is a computed one, never None
                    return neg
                return Opaque('(%s%s%s)' % (key_of(a), '!=' if neg else '==', key_of(b)))
            if isinstance(a, ClassRef) and isinstance(b, ClassRef):
                r = (a.rel, a.node.name) == (b.rel, b.node.name)
                return (not r) if neg else r
            if isinstance(op, (ast.Is, ast.IsNot)):
                r = a is b or (a == b and isinstance(a, (bool, int, str, type(None))) and type(a) == type(b))
            else:
                r = a == b
            return (not r) if neg else r
        if isinstance(op, (ast.In, ast.NotIn)):
            neg = isinstance(op, ast.NotIn)
            if isinstance(b, Obj) and b.kind == 'propmap':
                b = b.attrs['d']
            if unknown(b) or isinstance(b, (Obj, Inst)):
                return Opaque('(%s in %s)' % (key_of(a), key_of(b)))
            if isinstance(a, Sym):
                r = False
                for c in (b if not isinstance(b, dict) else b.keys()):
                    x = self.sym_equals(a, c)
                    if unknown(x):
                        return x
                    if x:
                        r = True
                        break
                return (not r) if neg else r
            if unknown(a):
                return Opaque('(%s in %s)' % (key_of(a), key_of(b)))
            try:
                r = self.hashable(a) in b
            except TypeError:
                r = any(a == x for x in b)
            return (not r) if neg else r
        if unknown(a) or unknown(b):
            return Opaque('(%s%s%s)' % (key_of(a), type(op).__name__, key_of(b)))
        try:
            return CMP[type(op)](a, b)
        except Exception:
            raise Unsupported('comparison %s' % type(op).__name__)

    def e_Attribute(self, e, env):
        v = self.ev(e.value, env)
        return self.getattr(v, e.attr, e, env)

    def getattr(self, v, attr, node, env):
        for h_ in ATTR_HOOKS:
            r_ = h_(self, v, attr, node, env)
            if r_ is not NotImplemented:
                return r_
        if isinstance(v, Obj):
            if v.kind == 'pa':
                return self.pa_attr(v, attr)
            if attr in v.attrs:
                return v.attrs[attr]
            if v.kind == 'scheme':
                f = self.find_method(v.attrs['__class__'], attr)
                if f is not None:
                    decos = [d.id for d in getattr(f[2], 'decorator_list', []) if isinstance(d, ast.Name)]
                    if 'staticmethod' in decos:
                        return FuncRef(f[0], f[2], cls=f[1])
                    if 'classmethod' in decos:
                        return FuncRef(f[0], f[2], self_obj=v.attrs['__class__'], cls=f[1])
                    return FuncRef(f[0], f[2], self_obj=v, cls=f[1])
                c = self.class_attr(v.attrs['__class__'], attr)
                if c is not None:
                    return c
                raise Raised("AttributeError: scheme has no attribute '%s'" % attr, node, env.get('__rel__'))
            if v.kind == 'mock':
                raise Raised("AttributeError: model object has no attribute '%s'" % attr, node, env.get('__rel__'))
            return Opaque('%s.%s' % (key_of(v), attr))
        if isinstance(v, SuperRef):
            f = self.find_method(v.cls, attr, after=True)
            if f is None:
                raise Raised('AttributeError: super().%s' % attr, node, env.get('__rel__'))
            return FuncRef(f[0], f[2], self_obj=v.obj, cls=f[1])
        if isinstance(v, Inst):
            if attr in v.attrs:
                return v.attrs[attr]
            if attr in v.kwargs:
                return v.kwargs[attr]
            return Opaque('%s.%s' % (v.cls.node.name, attr))
        if isinstance(v, ClassRef):
            if attr == '__name__':
                return v.node.name
            f = self.find_method(v, attr)
            if f is not None:
                return FuncRef(f[0], f[2], cls=f[1])
            c = self.class_attr(v, attr)
            return c if c is not None else Opaque('%s.%s' % (v.node.name, attr))
        if unknown(v):
            if isinstance(v, External) and '%s.%s' % (v.key, attr) in EXTERNAL_CONSTANTS:
                return EXTERNAL_CONSTANTS['%s.%s' % (v.key, attr)]
            return Opaque('%s.%s' % (key_of(v), attr)) if not isinstance(v, External) else External('%s.%s' % (v.key, attr))
        if isinstance(v, (list, dict, set, frozenset, tuple, str, bytes)):
            return ('__method__', v, attr)
        if isinstance(v, (int, float)):
            return Opaque('%r.%s' % (v, attr))
        if v is None:
            raise Raised("AttributeError: 'NoneType' object has no attribute '%s'" % attr, node, env.get('__rel__'))
        if v is BUILTINS.get('dict') and attr == 'fromkeys':
            # dict.fromkeys(keys, value): every key maps to the *same* value object, as in Python
            def _fromkeys(interp, args, kwargs, node_, env_):
                val = args[1] if len(args) > 1 else None
                return dict((interp.hashable(k), val) for k in interp.iterate(args[0], node_))
            return _fromkeys
        raise Unsupported('attribute %s of %s' % (attr, type(v).__name__))

    def class_attr(self, cref, attr):
        for rel, c in self.mro(cref):
            for s in c.body:
                if isinstance(s, ast.Assign) and any(isinstance(t, ast.Name) and t.id == attr for t in s.targets):
                    return self.ev(s.value, {'__rel__': rel})
        return None

    def mro(self, cref):
        try:
            return self.ci.mro(cref.rel, cref.node)
        except Exception:
            return [(cref.rel, cref.node)]

    def find_method(self, cref, name, after=False):
        chain = self.mro(cref)
        if after:
            chain = chain[1:]
        for rel, c in chain:
            for s in c.body:
                if isinstance(s, ast.FunctionDef) and s.name == name:
                    return rel, ClassRef(rel, c), s
        return None

    def e_Subscript(self, e, env):
        v = self.ev(e.value, env)
        if isinstance(e.slice, ast.Slice):
            lo = self.ev(e.slice.lower, env) if e.slice.lower else None
            hi = self.ev(e.slice.upper, env) if e.slice.upper else None
            st = self.ev(e.slice.step, env) if e.slice.step else None
            if unknown(v) or any(unknown(x) for x in (lo, hi, st)):
                return Opaque('%s[:]' % key_of(v))
            return v[lo:hi:st]
        i = self.ev(e.slice, env)
        if isinstance(v, Obj) and v.kind == 'propmap':
            v = v.attrs['d']
        if unknown(v) or isinstance(v, (Obj, Inst)):
            return Opaque('%s[%s]' % (key_of(v), key_of(i)))
        if unknown(i):
            return Opaque('%s[%s]' % (key_of(v), key_of(i)))
        try:
            return v[self.hashable(i)]
        except KeyError:
            raise Raised('KeyError: %r (keys: %s)' % (i, sorted(map(str, v.keys()))[:6]), e, env.get('__rel__'))
        except IndexError:
            raise Raised('IndexError: %r' % (i,), e, env.get('__rel__'))

    def e_ListComp(self, e, env):
        out = []
        self.comp(e.generators, 0, env, lambda sc: out.append(self.ev(e.elt, sc)))
        return out

    def e_GeneratorExp(self, e, env):
        return self.e_ListComp(e, env)

    def e_SetComp(self, e, env):
        return set(self.hashable(x) for x in self.e_ListComp(e, env))

    def e_DictComp(self, e, env):
        d = {}
        self.comp(e.generators, 0, env, lambda sc: d.__setitem__(self.hashable(self.ev(e.key, sc)), self.ev(e.value, sc)))
        return d

    def comp(self, gens, k, env, emit):
        if k == len(gens):
            return emit(env)
        g = gens[k]
        for item in self.iterate(self.ev(g.iter, env), g.iter):
            sc = {'__parent__': env, '__rel__': env['__rel__']}
            self.bind(g.target, item, sc)
            if all(self.truth(self.ev(c, sc)) for c in g.ifs):
                self.comp(gens, k + 1, sc, emit)

    def e_Lambda(self, e, env):
        # a closure: evaluated as a one-statement function whose free names resolve in the defining scope
        fn = ast.FunctionDef(name='<lambda>', args=e.args, body=[ast.Return(value=e.body, lineno=getattr(e, 'lineno', 0), col_offset=0)], decorator_list=[],
                             lineno=getattr(e, 'lineno', 0), col_offset=0)
        f = FuncRef(env.get('__rel__'), fn)
        f.closure = env
        return f

    def e_Starred(self, e, env):
        raise Unsupported('starred expression')

    def iterate(self, v, node):
        if isinstance(v, Obj) and v.kind == 'propmap':
            v = v.attrs['d']
        if isinstance(v, dict):
            return list(v.keys())
        if isinstance(v, (list, tuple, set, frozenset, str, range)):
            if isinstance(v, (set, frozenset)):
                # a set has no order of its own: rules that care run the model twice, with the two opposite orders (set_order_reversed)
                self.set_iterations = getattr(self, 'set_iterations', 0) + 1
                return sorted(v, key=str, reverse=bool(getattr(self, 'set_order_reversed', False)))
            return list(v)
        if isinstance(v, Sym) and v.name == 'dim':
            return list(range(self.cfg.decide(('value', 'dim'), [2, 1, 3])))
        raise Unsupported('iteration over %s' % key_of(v))

    # -- calls ---------------------------------------------------------------------
    def e_Call(self, e, env):
        f = self.ev(e.func, env)
        args = []
        for a in e.args:
            if isinstance(a, ast.Starred):
                args.extend(self.iterate(self.ev(a.value, env), a))
            else:
                args.append(self.ev(a, env))
        kwargs = {}
        for k in e.keywords:
            if k.arg is None:
                d = self.ev(k.value, env)
                if isinstance(d, dict):
                    kwargs.update(d)
                elif unknown(d):
                    kwargs['**'] = d
                else:
                    raise Unsupported('** of %s' % type(d).__name__)
            else:
                kwargs[k.arg] = self.ev(k.value, env)
        return self.call(f, args, kwargs, e, env)

    def call(self, f, args, kwargs, node, env):
        name = None
        if isinstance(f, tuple) and len(f) == 3 and f[0] == '__method__':
            return self.call_builtin_method(f[1], f[2], args, kwargs, node, env)
        if isinstance(f, tuple) and len(f) == 3 and f[0] == '__pamethod__':
            return self.pa_method(f[1], f[2], args, kwargs, node, env)
        if isinstance(f, FuncRef):
            key = (f.rel, f.cls.node.name if f.cls is not None else None, f.node.name)
            if key in self.intrinsics:
                return self.intrinsics[key](self, f, args, kwargs, node, env)
            return self.call_function(f, args, kwargs, node)
        if isinstance(f, ClassRef):
            key = (f.rel, f.node.name)
            if key in self.intrinsics:
                return self.intrinsics[key](self, f, args, kwargs, node, env)
            inst = Inst(f, args, kwargs, node, env.get('__rel__'))
            self.insts.append(inst)
            return inst
        if callable(f) and not isinstance(f, (Opaque, Sym, External)):
            return f(self, args, kwargs, node, env)
        if isinstance(f, External) and f.key in EXTERNAL_CALLS:
            return EXTERNAL_CALLS[f.key](self, args, kwargs, node, env)
        if unknown(f):
            for a in list(args) + list(kwargs.values()):
                if isinstance(a, Obj) and a.kind == 'pa':
                    a.attrs['top'] = 'passed to %s' % key_of(f)
            return Opaque('%s(%s)' % (key_of(f), ','.join(key_of(a) for a in args)))
        raise Unsupported('call of %s' % type(f).__name__)

    def call_function(self, f, args, kwargs, node):
        fn = f.node
        self.depth += 1
        if self.depth > 40:
            raise Unsupported('recursion too deep')
        try:
            sc = {'__rel__': f.rel}
            if getattr(f, 'closure', None) is not None:
                sc['__parent__'] = f.closure
            params = [a.arg for a in fn.args.args]
            vals = list(args)
            if f.self_obj is not None:
                vals = [f.self_obj] + vals
            defaults = fn.args.defaults
            ndef = len(defaults)
            for i, p in enumerate(params):
                if i < len(vals):
                    sc[p] = vals[i]
                elif p in kwargs:
                    sc[p] = kwargs.pop(p)
                else:
                    j = i - (len(params) - ndef)
                    if j >= 0:
                        sc[p] = self.ev(defaults[j], {'__rel__': f.rel})
                    else:
                        raise Raised('TypeError: %s() missing argument %s' % (fn.name, p), node, f.rel)
            if len(vals) > len(params):
                if fn.args.vararg is None:
                    raise Raised('TypeError: %s() takes %d positional arguments but %d were given' % (fn.name, len(params), len(vals)), node, f.rel)
                sc[fn.args.vararg.arg] = tuple(vals[len(params):])
            elif fn.args.vararg is not None:
                sc[fn.args.vararg.arg] = ()
            for a, d in zip(fn.args.kwonlyargs, fn.args.kw_defaults):
                if a.arg in kwargs:
                    sc[a.arg] = kwargs.pop(a.arg)
                elif d is not None:
                    sc[a.arg] = self.ev(d, {'__rel__': f.rel})
            extra = dict((k, v) for k, v in kwargs.items() if k not in params)
            if fn.args.kwarg is not None:
                sc[fn.args.kwarg.arg] = extra
            elif extra:
                raise Raised("TypeError: %s() got an unexpected keyword argument '%s'" % (fn.name, sorted(extra)[0]), node, f.rel)
            if f.cls is not None:
                sc['__class__'] = f.cls
            try:
                self.block(fn.body, sc)
            except _Return as r:
                return r.v
            return None
        finally:
            self.depth -= 1

    # -- statements ------------------------------------------------------------------
    def block(self, stmts, env):
        for s in stmts:
            self.stmt(s, env)

    def stmt(self, s, env):
        self.steps += 1
        if isinstance(s, ast.Expr):
            if not isinstance(s.value, ast.Constant):
                self.ev(s.value, env)
        elif isinstance(s, ast.Assign):
            v = self.ev(s.value, env)
            for t in s.targets:
                self.bind(t, v, env)
        elif isinstance(s, ast.AnnAssign):
            if s.value is not None:
                self.bind(s.target, self.ev(s.value, env), env)
        elif isinstance(s, ast.AugAssign):
            cur = self.ev(s.target, env)
            v = self.ev(s.value, env)
            if isinstance(cur, list) and isinstance(s.op, ast.Add) and not unknown(v):
                cur.extend(self.iterate(v, s.value))     # in place, like Python
                return
            if isinstance(cur, set) and isinstance(s.op, ast.BitOr) and not unknown(v):
                cur.update(v)
                return
            if unknown(cur) or unknown(v):
                r = Opaque('(%s %s %s)' % (key_of(cur), type(s.op).__name__, key_of(v)))
            else:
                r = OPS[type(s.op)](cur, v)
            self.bind(s.target, r, env)
        elif isinstance(s, ast.If):
            self.block(s.body if self.truth(self.ev(s.test, env)) else s.orelse, env)
        elif isinstance(s, ast.For):
            broke = False
            for item in self.iterate(self.ev(s.iter, env), s.iter):
                self.bind(s.target, item, env)
                try:
                    self.block(s.body, env)
                except _Break:
                    broke = True
                    break
                except _Continue:
                    continue
            if not broke:
                self.block(s.orelse, env)
        elif isinstance(s, ast.Return):
            raise _Return(self.ev(s.value, env) if s.value is not None else None)
        elif isinstance(s, ast.Pass):
            pass
        elif isinstance(s, (ast.Import, ast.ImportFrom)):
            for a in s.names:
                nm = a.asname or a.name.split('.')[0]
                got = self.from_import(env['__rel__'], s, nm)
                env[nm] = got if got is not None else External(a.name)
        elif isinstance(s, ast.Raise):
            r_ = Raised('raise %s' % (M.unparse(s.exc)[:80] if s.exc is not None else ''), s, env.get('__rel__'))
            # the evaluated arguments of the exception (its message), when they can be computed: rules about what an error says read them
            r_.args_values = None
            if isinstance(s.exc, ast.Call):
                try:
                    r_.args_values = [self.ev(a_, env) for a_ in s.exc.args]
                except Exception:
                    r_.args_values = None
            raise r_
        elif isinstance(s, ast.Break):
            raise _Break()
        elif isinstance(s, ast.Continue):
            raise _Continue()
        elif isinstance(s, ast.Assert):
            pass
        elif isinstance(s, ast.Try):
            self.block(s.body, env)
            self.block(s.orelse, env)
            self.block(s.finalbody, env)
        elif isinstance(s, ast.FunctionDef):
            env[s.name] = FuncRef(env['__rel__'], s)
            env[s.name].closure = env                      # free variables resolve in the defining scope
        elif isinstance(s, ast.Delete):
            pass
        elif isinstance(s, ast.While):
            # concrete execution only: the test must evaluate to a known truth value every time round (truth() raises otherwise); bounded
            broke = False
            n_ = 0
            while self.truth(self.ev(s.test, env)):
                n_ += 1
                if n_ > 10000:
                    raise Unsupported('while loop does not end within 10000 iterations on the model input')
                try:
                    self.block(s.body, env)
                except _Break:
                    broke = True
                    break
                except _Continue:
                    continue
            if not broke:
                self.block(s.orelse, env)
        elif isinstance(s, ast.With):
            for it_ in s.items:
                cv = self.ev(it_.context_expr, env)
                if it_.optional_vars is not None:
                    self.bind(it_.optional_vars, cv, env)
            self.block(s.body, env)
        else:
            raise Unsupported('statement %s' % type(s).__name__)

    def bind(self, t, v, env):
        if isinstance(t, ast.Name):
            env[t.id] = v
        elif isinstance(t, (ast.Tuple, ast.List)):
            items = self.iterate(v, t) if not isinstance(v, (tuple, list)) else list(v)
            if len(items) != len(t.elts):
                raise Unsupported('unpacking')
            for x, y in zip(t.elts, items):
                self.bind(x, y, env)
        elif isinstance(t, ast.Attribute):
            o = self.ev(t.value, env)
            if any(h_(self, o, t.attr, v) for h_ in STORE_HOOKS):
                return
            if isinstance(o, Obj):
                if o.kind == 'pa':
                    return
                o.attrs[t.attr] = v
            elif isinstance(o, Inst):
                o.attrs[t.attr] = v
            elif unknown(o):
                pass
            else:
                raise Unsupported('attribute assignment on %s' % type(o).__name__)
        elif isinstance(t, ast.Subscript):
            o = self.ev(t.value, env)
            if isinstance(o, (dict, list)) and not isinstance(t.slice, ast.Slice):
                i = self.ev(t.slice, env)
                if unknown(i):
                    raise Unsupported('store at an unknown index')
                o[self.hashable(i)] = v
            elif isinstance(o, Inst) and not isinstance(t.slice, ast.Slice) and any(isinstance(b_, ast.Name) and b_.id == 'dict' for b_ in getattr(o.cls.node, 'bases', [])):
                # an instance of a dict subclass that exposes its items as attributes (the Bunch recipe): c[name] = v is c.<name> = v
                i = self.ev(t.slice, env)
                if unknown(i) or not isinstance(i, str):
                    raise Unsupported('store at an unknown key of a %s' % o.cls.node.name)
                o.attrs[i] = v
            elif unknown(o) or isinstance(o, (Obj, Inst)) or isinstance(t.slice, ast.Slice):
                pass
            else:
                raise Unsupported('subscript assignment on %s' % type(o).__name__)
        else:
            raise Unsupported('assignment target')

    # -- builtin containers ---------------------------------------------------------------
    def call_builtin_method(self, obj, attr, args, kwargs, node, env):
        if any(unknown(a) for a in args) and attr in ('extend', 'update', 'union', 'intersection', 'difference', '__or__'):
            raise Unsupported('%s with an unknown argument' % attr)
        args = [a.attrs['d'] if isinstance(a, Obj) and a.kind == 'propmap' else a for a in args]
        if isinstance(obj, (set, frozenset)) and attr in ('add', 'discard', 'remove'):
            args = [self.hashable(a) for a in args]
        if isinstance(obj, (set, frozenset)) and attr in ('union', 'update', 'intersection', 'difference', 'issubset', 'issuperset', 'symmetric_difference'):
            args = [[self.hashable(x) for x in self.iterate(a, node)] for a in args]
        if isinstance(obj, dict) and attr == 'update' and args and isinstance(args[0], (Opaque, Sym)):
            raise Unsupported('dict.update with unknown')
        if isinstance(obj, str) and attr == 'format':
            if any(unknown(a) or isinstance(a, (Obj, Inst)) for a in list(args) + list(kwargs.values())):
                return Opaque('format')
        if isinstance(obj, str) and attr == 'join':
            items = self.iterate(args[0], node)
            if any(not isinstance(x, str) for x in items):
                return Opaque('join')
            return obj.join(items)
        try:
            r = getattr(obj, attr)(*args, **kwargs)
        except KeyError as ex:
            raise Raised('KeyError: %s' % ex, node, env.get('__rel__'))
        except (TypeError, AttributeError, ValueError) as ex:
            raise Unsupported('%s.%s: %s' % (type(obj).__name__, attr, ex))
        if attr in ('keys', 'values', 'items'):
            return list(r)
        return r

    # -- abstract particle arrays -------------------------------------------------------------
    def new_pa(self, name, props, constants=None):
        pa = Obj('pa', name=name, top=None)
        pa.attrs['properties'] = dict((p, Opaque('prop:%s' % p)) for p in props)
        pa.attrs['constants'] = dict(constants or {})
        pa.attrs['stride'] = {}
        pa.attrs['output_property_arrays'] = []
        # C types of the properties (what get_particle_array gives: tag / pid int, gid unsigned int, everything else double) and the typed requests that were ignored
        pa.attrs['types'] = dict((p, 'int' if p in ('tag', 'pid') else 'unsigned int' if p == 'gid' else 'double') for p in props)
        pa.attrs['type_conflicts'] = []
        return pa

    def pa_attr(self, pa, attr):
        if attr in ('name', 'stride', 'constants', 'output_property_arrays', 'properties'):
            return pa.attrs[attr]
        if attr in PA_METHODS:
            return ('__pamethod__', pa, attr)
        if attr in ('gpu', 'backend'):
            return None
        return Opaque('pa.%s' % attr)

    def pa_method(self, pa, attr, args, kwargs, node, env):
        A = pa.attrs
        if attr == 'add_property':
            name = kwargs.get('name', args[0] if args else None)
            if not isinstance(name, str):
                A['top'] = 'add_property with a computed name'
                return None
            ty = kwargs.get('type', args[1] if len(args) > 1 else None)
            data = kwargs.get('data', args[3] if len(args) > 3 else None)
            if data is not None:
                # an add_property that carries initial values was executed here (kept for rules about initial values that are never applied)
                DATA_SITES_EXECUTED.add((env.get('__rel__'), getattr(node, 'lineno', 0)))
            if name in A['properties'] and isinstance(ty, str) and A.get('types', {}).get(name) not in (None, ty):
                # ParticleArray.add_property keeps the array (and so the type) of a property that exists: the type asked for is silently not what the array has
                A.setdefault('type_conflicts', []).append((name, A['types'][name], ty, node, env.get('__rel__')))
            elif name not in A['properties']:
                A.setdefault('types', {})[name] = ty if isinstance(ty, str) else 'double'          # the default of the `type` parameter
            A['properties'][name] = Opaque('prop:%s' % name)
            st = kwargs.get('stride', args[4] if len(args) > 4 else 1)
            if st != 1:
                A['stride'][name] = st
            return None
        if attr == 'remove_property':
            A['properties'].pop(args[0], None)
            A['stride'].pop(args[0], None)
            A.get('types', {}).pop(args[0], None)
            return None
        if attr == 'add_constant':
            name = kwargs.get('name', args[0] if args else None)
            if isinstance(name, str):
                A['constants'][name] = kwargs.get('data', args[1] if len(args) > 1 else None)
            else:
                A['top'] = 'add_constant with a computed name'
            return None
        if attr in ('set_output_arrays', 'add_output_arrays'):
            v = args[0] if args else kwargs.get('props')
            if unknown(v):
                A['top'] = 'output arrays from an unknown value'
                return None
            items = v if isinstance(v, list) else list(self.iterate(v, node))
            if not A['top']:
                for x in items:
                    if isinstance(x, str) and x not in A['properties']:
                        # ParticleArray._check_property
                        raise Raised("AttributeError: property %s not present in array %s (asked for as an output array)" % (x, A['name']), node, env.get('__rel__'))
            if attr == 'set_output_arrays':
                A['output_property_arrays'] = v if isinstance(v, list) else items      # kept by reference, as the real method does
            else:
                cur = A['output_property_arrays']
                cur.extend(items)                                                      # in place first (a list shared with other arrays grows too) ...
                A['output_property_arrays'] = sorted(set(cur), key=str)                # ... then re-bound to a fresh list
            return None
        if attr in ('get_number_of_particles', 'get_carray', 'get', 'get_c_type', 'get_npy_array', 'set', 'set_name', 'set_num_real_particles', 'align_particles', 'set_lb_props',
                    'ensure_properties'):
            if attr == 'ensure_properties':
                A['top'] = 'ensure_properties'
            return Opaque('pa.%s()' % attr)
        A['top'] = 'method %s' % attr
        return Opaque('pa.%s()' % attr)


PA_METHODS = ('add_property', 'remove_property', 'add_constant', 'set_output_arrays', 'add_output_arrays', 'get_number_of_particles', 'get_carray', 'get', 'get_c_type',
              'get_npy_array', 'set', 'set_name', 'set_num_real_particles', 'align_particles', 'set_lb_props', 'ensure_properties', 'extend', 'append_parray', 'extract_particles',
              'remove_particles', 'add_particles', 'copy_properties', 'resize', 'update_min_max')

import operator  # noqa
OPS = {ast.Add: operator.add, ast.Sub: operator.sub, ast.Mult: operator.mul, ast.Div: operator.truediv, ast.FloorDiv: operator.floordiv, ast.Mod: operator.mod,
       ast.Pow: operator.pow, ast.LShift: operator.lshift, ast.RShift: operator.rshift, ast.BitOr: operator.or_, ast.BitAnd: operator.and_, ast.BitXor: operator.xor}
CMP = {ast.Lt: operator.lt, ast.LtE: operator.le, ast.Gt: operator.gt, ast.GtE: operator.ge}


def _b(fn):
    def w(interp, args, kwargs, node, env):
        if any(unknown(a) for a in args):
            return Opaque('%s(%s)' % (fn.__name__, ','.join(key_of(a) for a in args)))
        args = [a.attrs['d'] if isinstance(a, Obj) and a.kind == 'propmap' else a for a in args]
        try:
            return fn(*args, **kwargs)
        except TypeError as ex:
            raise Unsupported('%s: %s' % (fn.__name__, ex))
    w.__name__ = fn.__name__
    return w


def _list(interp, args, kwargs, node, env):
    return list(interp.iterate(args[0], node)) if args else []


def _set(interp, args, kwargs, node, env):
    return set(interp.hashable(x) for x in interp.iterate(args[0], node)) if args else set()


def _frozenset(interp, args, kwargs, node, env):
    return frozenset(interp.hashable(x) for x in interp.iterate(args[0], node)) if args else frozenset()


def _tuple(interp, args, kwargs, node, env):
    return tuple(interp.iterate(args[0], node)) if args else ()


def _dict(interp, args, kwargs, node, env):
    d = {}
    if args:
        a = args[0]
        if isinstance(a, dict):
            d.update(a)
        else:
            for kv in interp.iterate(a, node):
                k, v = kv
                d[interp.hashable(k)] = v
    d.update(kwargs)
    return d


def _isinstance(interp, args, kwargs, node, env):
    v, t = args
    ts = t if isinstance(t, tuple) else (t,)
    if unknown(v):
        return Opaque('isinstance(%s)' % key_of(v))
    names = set()
    for x in ts:
        names.add((getattr(x, '__name__', None) or (x.node.name if isinstance(x, ClassRef) else key_of(x))).lstrip('_'))
    py = {'dict': dict, 'list': list, 'tuple': tuple, 'set': set, 'str': str, 'int': int, 'float': float, 'bool': bool, 'bytes': bytes, 'frozenset': frozenset}
    for nme in names:
        if nme in py and isinstance(v, py[nme]):
            return True
        if isinstance(v, Inst) and nme in [c.name for r, c in interp.mro(v.cls)]:
            return True
    return False


def _issubclass(interp, args, kwargs, node, env):
    c, t = args
    ts = t if isinstance(t, tuple) else (t,)
    if not isinstance(c, ClassRef):
        if unknown(c):
            return Opaque('issubclass(%s)' % key_of(c))
        raise Raised('TypeError: issubclass() arg 1 must be a class', node, env.get('__rel__'))
    names = [x.name for r, x in interp.mro(c)]
    return any(isinstance(x, ClassRef) and x.node.name in names for x in ts)


def _hasattr(interp, args, kwargs, node, env):
    o, a = args
    if isinstance(o, Obj) and o.kind == 'scheme':
        return a in o.attrs or interp.find_method(o.attrs['__class__'], a) is not None
    if isinstance(o, Obj) and o.kind == 'pa':
        return a in o.attrs['properties'] or a in PA_METHODS
    if isinstance(o, Obj) and o.kind == 'mock':
        return a in o.attrs
    return Opaque('hasattr(%s,%s)' % (key_of(o), a))


def _getattr(interp, args, kwargs, node, env):
    o, a = args[0], args[1]
    if unknown(a):
        return Opaque('getattr')
    try:
        return interp.getattr(o, a, node, env)
    except Raised:
        if len(args) > 2:
            return args[2]
        raise


def _setattr(interp, args, kwargs, node, env):
    o, a, v = args
    if isinstance(o, Obj) and isinstance(a, str):
        o.attrs[a] = v
    return None


def _super(interp, args, kwargs, node, env):
    sc = env
    cls = obj = None
    while sc is not None:
        if '__class__' in sc and cls is None:
            cls = sc['__class__']
        if 'self' in sc and obj is None:
            obj = sc['self']
        sc = sc.get('__parent__')
    if args:
        cls, obj = args[0], args[1]
    return SuperRef(cls, obj)


def _dir(interp, args, kwargs, node, env):
    o = args[0]
    if isinstance(o, Obj) and o.kind == 'mock':
        return sorted(k for k in o.attrs if not k.startswith('__'))
    raise Unsupported('dir of %s' % key_of(o))


def _len(interp, args, kwargs, node, env):
    v = args[0]
    if isinstance(v, Obj) and v.kind == 'propmap':
        v = v.attrs['d']
    if unknown(v) or isinstance(v, (Obj, Inst)):
        return Opaque('len(%s)' % key_of(v))
    try:
        return len(v)
    except TypeError as ex:
        raise Raised('TypeError: %s' % ex, node, env.get('__rel__'))


def _print(interp, args, kwargs, node, env):
    return None


def _sorted(interp, args, kwargs, node, env):
    return sorted(interp.iterate(args[0], node), key=str)


def _range(interp, args, kwargs, node, env):
    if any(isinstance(a, Sym) and a.name == 'dim' for a in args):
        args = [interp.cfg.decide(('value', 'dim'), [2, 1, 3]) if isinstance(a, Sym) else a for a in args]
    if any(unknown(a) for a in args):
        raise Unsupported('range of an unknown')
    return list(range(*args))


def _zip(interp, args, kwargs, node, env):
    return list(zip(*[interp.iterate(a, node) for a in args]))


def _enumerate(interp, args, kwargs, node, env):
    return list(enumerate(interp.iterate(args[0], node)))


def _iter(interp, args, kwargs, node, env):
    return iter(list(interp.iterate(args[0], node)))


def _next(interp, args, kwargs, node, env):
    it_ = args[0]
    if not hasattr(it_, '__next__'):
        raise Unsupported('next() of %s' % key_of(it_))
    try:
        return next(it_)
    except StopIteration:
        if len(args) > 1:
            return args[1]
        raise Raised('StopIteration', node, env.get('__rel__'))


BUILTINS = {'list': _list, 'set': _set, 'frozenset': _frozenset, 'iter': _iter, 'next': _next, 'tuple': _tuple, 'dict': _dict, 'isinstance': _isinstance, 'issubclass': _issubclass, 'hasattr': _hasattr, 'getattr': _getattr, 'setattr': _setattr, 'super': _super,
            'len': _len, 'dir': _dir, 'print': _print, 'sorted': _sorted, 'range': _range, 'zip': _zip, 'enumerate': _enumerate, 'abs': _b(abs), 'max': _b(max), 'min': _b(min),
            'float': _b(float), 'int': _b(int), 'str': _b(str), 'bool': _b(bool), 'sum': _b(sum), 'round': _b(round), 'any': _b(any), 'all': _b(all),
            'True': True, 'False': False, 'None': None, 'object': Opaque('object'), 'RuntimeError': Opaque('RuntimeError'), 'ValueError': Opaque('ValueError'),
            'NotImplementedError': Opaque('NotImplementedError'), 'KeyError': Opaque('KeyError'), 'TypeError': Opaque('TypeError')}
EXTERNAL_CALLS = {}
DATA_SITES_EXECUTED = set()
EXTERNAL_CONSTANTS = {'numpy.inf': float('inf'), 'numpy.Inf': float('inf'), 'math.inf': float('inf'), 'numpy.pi': 3.141592653589793, 'math.pi': 3.141592653589793}
ATTR_HOOKS = []      # (interp, value, attr, node, env) -> value or NotImplemented: attribute access on model objects of plug-in models
STORE_HOOKS = []     # (interp, value, attr, new) -> True when the store was handled
