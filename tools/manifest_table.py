CHECKS = {
 "C20": {"text": "Decides, for every path through the set-up code, that the names for which array-pointer set-up is generated (signature arrays and arrays of precomputed symbols, destination and every source; stepper arrays) are a subset of the names validated before compilation, that unknown array names raise before any look-up, that the error names equation and missing set, and that validation dominates compilation. Exhaustive over the emit sites of the Cython back end; it does not execute anything.",
         "note": "Trusts CPython ast/Mako lexer; getfullargspec returns the written parameter names; GPU back ends out of scope.",
         "technique": "tag dataflow (SIG/PRE x S/D) with inlining + CFG dominance over helper code and Mako template"},
 "C06": {"text": "Decides structural necessary conditions of coherence over all ~50 methods of ParticleArray: per-property maps (default_values, stride, output_property_arrays) are updated wherever properties is deleted from / rebound / inserted into; every sized carray operation, slice bound and element loop on a property array is scaled by the stride looked up for that same key; count-changing mutators visit every property on every path; alignment follows every size change (CFG must-pass); pickle record keys agree with add_property/add_constant. It does not decide equality with a record-list model over histories.",
         "note": "Trusts the Cython parser and the documented behaviour of cyarray's carray methods; GPU helper paths out of scope.",
         "technique": "AST/CFG rules over the Cython parse tree lowered to Python ast: key-provenance of stride values, co-indexed-map update rule, must-pass-through"},
}
NOT_APPLICABLE = {}
