"""Triage demo for the C12 findings: builds the scheme with the reported option combination on plain particle arrays and runs
setup_properties, get_equations and PySPH's own fail-fast check (check_equation_array_properties) - no code generation.

  cd /tmp && timeout 300 /venv/bin/python /verif/triage/c12_schemes.py       (TRIAGE_SRC=<tree> to look at another source tree)

Exit 1 when any of the cases fails (as on the tree before the fix: commits), 0 when all pass.
"""
import os, sys
sys.path.insert(0, os.path.dirname(os.path.abspath(__file__)))
import _overlay  # noqa
import numpy as np
from pysph.base.utils import get_particle_array
from pysph.sph.equation import Group
from pysph.sph.acceleration_eval import check_equation_array_properties


def arrays(*names):
    x = np.linspace(0, 1, 5)
    return [get_particle_array(name=n, x=x, h=0.1, m=1.0, rho=1.0) for n in names]


def flatten(eqs, out):
    if hasattr(eqs, 'groups'):
        eqs = eqs.groups
    for e in eqs:
        if isinstance(e, Group) or hasattr(e, 'equations'):
            flatten(e.equations, out)
        elif isinstance(e, (list, tuple)):
            flatten(e, out)
        else:
            out.append(e)
    return out


def case(title, make, names):
    try:
        s = make()
        pas = arrays(*names)
        s.setup_properties(pas, clean=True)
        eqs = flatten(s.get_equations(), [])
        for e in eqs:
            check_equation_array_properties(e, pas)
        print('PASS', title)
        return 0
    except Exception as ex:
        print('FAIL', title, '->', type(ex).__name__, str(ex).replace('\n', ' ')[:200])
        return 1


bad = 0
from pysph.sph.isph.isph import ISPHScheme
bad += case('ISPHScheme with the fluid array called "water"', lambda: ISPHScheme(fluids=['water'], solids=[], dim=2, nu=0.0, rho0=1.0, c0=10.0, alpha=0.0), ['water'])
from pysph.sph.isph.sisph import SISPHScheme
bad += case('SISPHScheme with the fluid array called "water"', lambda: SISPHScheme(fluids=['water'], solids=[], dim=2, nu=0.0, rho0=1.0, c0=10.0), ['water'])
from pysph.sph.gas_dynamics.psph import PSPHScheme
bad += case('PSPHScheme(has_ghosts=True)', lambda: PSPHScheme(fluids=['fluid'], solids=[], dim=1, gamma=1.4, hfact=1.2, has_ghosts=True), ['fluid'])
from pysph.sph.gas_dynamics.tsph import TSPHScheme
bad += case('TSPHScheme(has_ghosts=True)', lambda: TSPHScheme(fluids=['fluid'], solids=[], dim=1, gamma=1.4, hfact=1.2, has_ghosts=True), ['fluid'])
from pysph.sph.wc.edac import EDACScheme
bad += case('EDACScheme(pb=0, inviscid_solids=[wall])', lambda: EDACScheme(fluids=['fluid'], solids=[], dim=2, c0=10.0, nu=0.0, rho0=1.0, pb=0.0, inviscid_solids=['wall']), ['fluid', 'wall'])
from pysph.sph.wc.gtvf import GTVFScheme
bad += case('GTVFScheme(nu>0, solids=[wall])', lambda: GTVFScheme(fluids=['fluid'], solids=['wall'], dim=2, rho0=1.0, c0=10.0, nu=0.01, h0=0.1, pref=100.0), ['fluid', 'wall'])
sys.exit(1 if bad else 0)
