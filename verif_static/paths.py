"""Structured path enumeration with a small feasibility filter.

A *path* through a statement list is the list of events met when every `if` is decided one way: ('cond', test, truth, env), ('stmt', node, env),
('return', node, env).  `env` maps the local names assigned so far on this path to their defining expressions with earlier locals substituted
(copy propagation along the path), so a rule can compare what a test or a stored value *means* (`resolve`) without depending on how many
temporaries the author used or what they are called.  Loops are entered zero times or once (their bodies are straight-line for the rules that use
this); `try` runs its body and finaliser.

Correlated branches are pruned: a path that assigns a constant (None / True / False / a number) to a name and later takes the branch that
contradicts it (`x is not None`, `x`, `not x`, `x == c`), or decides the same test both ways without anything it reads being written in between, is
infeasible and dropped.  Anything else is kept (over-approximation).
"""
import ast
import copy

from . import norm as N


TRUNCATED = []     # (first line, number of paths) of every enumeration that hit its cap in this process


class Ev(object):
    __slots__ = ('kind', 'node', 'truth', 'env')

    def __init__(self, kind, node, truth=None, env=None):
        self.kind, self.node, self.truth, self.env = kind, node, truth, env

    def __repr__(self):
        return '%s(%s%s)' % (self.kind, ast.unparse(self.node)[:50].replace('\n', ' '), '' if self.truth is None else ' -> %s' % self.truth)


def resolve(e, env, depth=10):
    """e with the path-local names replaced by their definitions"""
    class Sub(ast.NodeTransformer):
        def visit_Name(self, n):
            if isinstance(n.ctx, ast.Load) and n.id in env and depth > 0:
                return N.clone(env[n.id])
            return n
    return deref(Sub().visit(N.clone(e)))


def deref(e):
    """pointer aliases of the Cython sources: `(&X[k])[j]` (lowered as `__addr__(X[k])[j]`) is `X[k + j]`"""
    class D(ast.NodeTransformer):
        def visit_Subscript(self, n):
            self.generic_visit(n)
            v = n.value
            if isinstance(v, ast.Call) and isinstance(v.func, ast.Name) and v.func.id == '__addr__' and len(v.args) == 1 and isinstance(v.args[0], ast.Subscript):
                inner = v.args[0]
                j = n.slice
                if isinstance(j, ast.Constant) and j.value == 0:
                    idx = inner.slice
                else:
                    idx = ast.BinOp(left=inner.slice, op=ast.Add(), right=j)
                return ast.Subscript(value=inner.value, slice=idx, ctx=n.ctx)
            return n
    return ast.fix_missing_locations(D().visit(e))


def _names_read(e):
    out = set()
    for x in ast.walk(e):
        if isinstance(x, ast.Name):
            out.add(x.id)
        elif isinstance(x, ast.Attribute):
            out.add(ast.unparse(x).replace(' ', ''))
    return out


def _reads(e):
    """sub-expressions of e whose value is read (what stands under an address-of is a location, not a read)"""
    todo = [e]
    while todo:
        x = todo.pop()
        yield x
        if isinstance(x, ast.Call) and isinstance(x.func, ast.Name) and x.func.id == '__addr__' and len(x.args) == 1 and isinstance(x.args[0], ast.Subscript):
            todo.extend([x.args[0].value, x.args[0].slice])
        else:
            todo.extend(ast.iter_child_nodes(x))


def _written(s):
    out = set()
    tg = []
    if isinstance(s, ast.Assign):
        tg = s.targets
    elif isinstance(s, (ast.AugAssign, ast.AnnAssign)):
        tg = [s.target]
    for t in tg:
        for x in ast.walk(t):
            if isinstance(x, ast.Name):
                out.add(x.id)
            elif isinstance(x, ast.Attribute):
                out.add(ast.unparse(x).replace(' ', ''))
    if isinstance(s, ast.Expr) and isinstance(s.value, ast.Call):
        out.add('<call>')
    return out


class _LoopEnd(ast.stmt):
    """marks the end of a loop body that was spliced into the statement list"""
    _fields = ()


def _desugar(stmts):
    """conditional expressions at statement level become branches: `return a if c else b`, `x = a if c else b` (also inside compound statements).
    Statements without one are kept as the very same nodes (rules identify loops and with-blocks by identity); a rewritten compound statement remembers the
    original in `_orig`, which is what the events carry"""
    out, changed = [], False
    for s in stmts:
        if isinstance(s, ast.Return) and isinstance(s.value, ast.IfExp):
            e = s.value
            n = ast.If(test=e.test, body=_desugar([ast.copy_location(ast.Return(value=e.body), s)])[0], orelse=_desugar([ast.copy_location(ast.Return(value=e.orelse), s)])[0])
            out.append(ast.copy_location(n, s))
            changed = True
        elif isinstance(s, ast.Assign) and isinstance(s.value, ast.IfExp):
            e = s.value

            def arm(v):
                # `x = x` (the arm of `x = c if t else x` that keeps the value) is no statement at all
                if len(s.targets) == 1 and isinstance(s.targets[0], ast.Name) and isinstance(v, ast.Name) and v.id == s.targets[0].id:
                    return [ast.copy_location(ast.Pass(), s)]
                return _desugar([ast.copy_location(ast.Assign(targets=s.targets, value=v), s)])[0]
            n = ast.If(test=e.test, body=arm(e.body), orelse=arm(e.orelse))
            out.append(ast.copy_location(n, s))
            changed = True
        elif isinstance(s, (ast.If, ast.For, ast.While, ast.With, ast.Try)):
            new_fields = {}
            for f in ('body', 'orelse', 'finalbody'):
                if getattr(s, f, None):
                    nl, ch = _desugar(getattr(s, f))
                    if ch:
                        new_fields[f] = nl
            if new_fields:
                c = copy.copy(s)
                for f, nl in new_fields.items():
                    setattr(c, f, nl)
                c._orig = getattr(s, '_orig', s)
                out.append(c)
                changed = True
            else:
                out.append(s)
        else:
            out.append(s)
    return out, changed


def enumerate_paths(stmts, cap=5000):
    paths = []
    stmts = _desugar(list(stmts))[0]

    def const_of(v):
        if isinstance(v, ast.Constant):
            return ('const', v.value)
        return None

    def decide(test, truth, facts, decided):
        """False when taking this branch contradicts what the path has established"""
        t = test
        neg = False
        while isinstance(t, ast.UnaryOp) and isinstance(t.op, ast.Not):
            t, neg = t.operand, not neg
        want = truth != neg
        if isinstance(t, ast.Name) and t.id in facts:
            f = facts[t.id]
            if f[0] == 'const':
                return bool(f[1]) == want
        if isinstance(t, ast.Compare) and len(t.ops) == 1 and isinstance(t.left, ast.Name) and t.left.id in facts and isinstance(t.comparators[0], ast.Constant):
            f = facts[t.left.id]
            c = t.comparators[0].value
            op = t.ops[0]
            if f[0] == 'const':
                if isinstance(op, (ast.Is, ast.Eq)):
                    return ((f[1] is c) if c is None or isinstance(c, bool) else (f[1] == c)) == want
                if isinstance(op, (ast.IsNot, ast.NotEq)):
                    return ((f[1] is not c) if c is None or isinstance(c, bool) else (f[1] != c)) == want
            if f[0] == 'notnone' and c is None and isinstance(op, (ast.Is, ast.IsNot)):
                return isinstance(op, ast.IsNot) == want
        try:
            k = repr(N.canon(t))
        except Exception:
            k = ast.unparse(t)
        if k in decided:
            return decided[k][0] == want
        return True

    def learn(test, truth, facts, decided):
        t = test
        neg = False
        while isinstance(t, ast.UnaryOp) and isinstance(t.op, ast.Not):
            t, neg = t.operand, not neg
        want = truth != neg
        facts, decided = dict(facts), dict(decided)
        if isinstance(t, ast.Compare) and len(t.ops) == 1 and isinstance(t.left, ast.Name) and isinstance(t.comparators[0], ast.Constant) and t.comparators[0].value is None:
            isnot = isinstance(t.ops[0], ast.IsNot)
            if isinstance(t.ops[0], (ast.Is, ast.IsNot)):
                if isnot == want:
                    if t.left.id not in facts:
                        facts[t.left.id] = ('notnone',)
                else:
                    facts[t.left.id] = ('const', None)
        try:
            k = repr(N.canon(t))
        except Exception:
            k = ast.unparse(t)
        decided[k] = (want, _names_read(t))
        return facts, decided

    def walk(stmts, evs, env, facts, decided):
        if len(paths) >= cap:
            return
        for k, s in enumerate(stmts):
            rest = stmts[k + 1:]
            if isinstance(s, ast.If):
                for truth, branch in ((True, s.body), (False, s.orelse)):
                    rt = resolve(s.test, env)
                    if not decide(s.test, truth, facts, decided) or not decide(rt, truth, facts, decided):
                        continue
                    f2, d2 = learn(s.test, truth, facts, decided)
                    walk(list(branch) + rest, evs + [Ev('cond', s.test, truth, env)], env, f2, d2)
                return
            if isinstance(s, (ast.Return, ast.Raise)):
                paths.append(evs + [Ev('return' if isinstance(s, ast.Return) else 'raise', s, None, env)])
                return
            if isinstance(s, (ast.For, ast.While)):
                walk(rest, evs + [Ev('loop', getattr(s, '_orig', s), False, env)], env, facts, decided)
                body = [x for x in s.body] + [_LoopEnd()]
                env_l, facts_l, decided_l = env, facts, decided
                if isinstance(s, ast.For):
                    # the loop target is bound anew: whatever the path knew about those names ends here
                    tw = set(x.id for x in ast.walk(s.target) if isinstance(x, ast.Name))
                    if tw:
                        env_l = dict((k2, v2) for k2, v2 in env.items() if k2 not in tw)
                        facts_l = dict((k2, v2) for k2, v2 in facts.items() if k2 not in tw)
                        decided_l = dict((k2, v2) for k2, v2 in decided.items() if not (v2[1] & tw))
                walk(body + rest, evs + [Ev('loop', getattr(s, '_orig', s), True, env)], env_l, facts_l, decided_l)
                return
            if isinstance(s, _LoopEnd):
                continue
            if isinstance(s, (ast.Continue, ast.Break)):
                # leaves the innermost loop body (bodies are entered at most once, so `continue` and `break` both resume after it); in a bare loop body
                # handed to enumerate_paths the path ends here
                after = None
                for j, s2 in enumerate(rest):
                    if isinstance(s2, _LoopEnd):
                        after = rest[j + 1:]
                        break
                if after is None:
                    paths.append(evs + [Ev('end', ast.Pass(), None, env)])
                else:
                    walk(after, evs, env, facts, decided)
                return
            if isinstance(s, ast.Try):
                walk(list(s.body) + list(s.orelse) + list(s.finalbody) + rest, evs, env, facts, decided)
                return
            if isinstance(s, ast.With):
                walk(list(s.body) + rest, evs + [Ev('stmt', getattr(s, '_orig', s), None, env)], env, facts, decided)
                return
            evs = evs + [Ev('stmt', s, None, env)]
            w = _written(s)
            if w:
                decided = dict((k2, v2) for k2, v2 in decided.items() if not (v2[1] & w) and '<call>' not in w)
                facts = dict((k2, v2) for k2, v2 in facts.items() if k2 not in w)
            # a store to memory (X[k] = v, o.f = v, through a pointer alias too) ends the life of every remembered definition that reads that location
            mem = []
            for t_ in (s.targets if isinstance(s, ast.Assign) else [s.target] if isinstance(s, (ast.AugAssign, ast.AnnAssign)) else []):
                for x in ([t_] if not isinstance(t_, (ast.Tuple, ast.List)) else t_.elts):
                    if isinstance(x, (ast.Subscript, ast.Attribute)):
                        xl = N.clone(x)
                        xl.ctx = ast.Load()
                        mem.append(ast.unparse(resolve(xl, env)).replace(' ', ''))
            if mem:
                stale = [nm for nm, v_ in env.items()
                         if any(isinstance(y, (ast.Subscript, ast.Attribute)) and ast.unparse(y).replace(' ', '') in mem for y in _reads(v_))]
                if stale:
                    env = dict(env)
                    for nm in stale:
                        env.pop(nm)
            if isinstance(s, ast.Assign) and all(isinstance(t_, ast.Name) for t_ in s.targets):
                val = resolve(s.value, env)
                env = dict(env)
                facts = dict(facts)
                for t_ in s.targets:            # a = b = value
                    nm = t_.id
                    # a name that is re-assigned in terms of itself (x = x + 1) is kept opaque
                    if any(isinstance(x, ast.Name) and x.id == nm for x in ast.walk(val)):
                        env.pop(nm, None)
                    else:
                        env[nm] = val
                    c = const_of(s.value)
                    if c is not None:
                        facts[nm] = c
                    elif isinstance(s.value, ast.Name) and s.value.id in facts:
                        facts[nm] = facts[s.value.id]
            elif isinstance(s, ast.Assign) and len(s.targets) == 1 and isinstance(s.targets[0], (ast.Tuple, ast.List)) and isinstance(s.value, (ast.Tuple, ast.List)) \
                    and len(s.targets[0].elts) == len(s.value.elts) and all(isinstance(t_, ast.Name) for t_ in s.targets[0].elts):
                # a, b = e1, e2: simultaneous assignment - both right-hand sides are taken in the environment before the statement
                vals = [resolve(v_, env) for v_ in s.value.elts]
                env = dict(env)
                for t_, val in zip(s.targets[0].elts, vals):
                    if any(isinstance(x, ast.Name) and x.id == t_.id for x in ast.walk(val)):
                        env.pop(t_.id, None)
                    else:
                        env[t_.id] = val
                    facts = dict((k2, v2) for k2, v2 in facts.items() if k2 != t_.id)
            elif isinstance(s, ast.Assign):
                # tuple unpacking and the like: the names become opaque again
                env = dict(env)
                for t_ in s.targets:
                    for x in ast.walk(t_):
                        if isinstance(x, ast.Name) and isinstance(x.ctx, ast.Store):
                            env.pop(x.id, None)
            elif isinstance(s, (ast.AugAssign, ast.AnnAssign)) and isinstance(s.target, ast.Name):
                env = dict(env)
                if isinstance(s, ast.AnnAssign) and s.value is not None:
                    env[s.target.id] = resolve(s.value, env)
                else:
                    env.pop(s.target.id, None)
        paths.append(evs + [Ev('end', ast.Pass(), None, env)])
    walk(list(stmts), [], {}, {}, {})
    if len(paths) >= cap:
        # the enumeration was cut short: rules quantifying over "every path" have not seen every path
        TRUNCATED.append((getattr(stmts[0], 'lineno', 0) if stmts else 0, len(paths)))
    return paths


def took(path, truth, *texts):
    """index of the first event where the path decided a test meaning one of `texts` (after substitution of path-local names) as `truth`; None otherwise"""
    for i, e in enumerate(path):
        if e.kind != 'cond':
            continue
        for cand in (e.node, resolve(e.node, e.env)):
            t, neg = cand, False
            while isinstance(t, ast.UnaryOp) and isinstance(t.op, ast.Not):
                t, neg = t.operand, not neg
            if isinstance(t, ast.Compare) and len(t.ops) == 1 and isinstance(t.ops[0], (ast.NotIn, ast.IsNot, ast.NotEq)):
                # `a not in b` is `not (a in b)` and so on: compared in the positive spelling
                pos = {ast.NotIn: ast.In, ast.IsNot: ast.Is, ast.NotEq: ast.Eq}[type(t.ops[0])]
                t2 = ast.Compare(left=t.left, ops=[pos()], comparators=t.comparators)
                if N.same(t2, *texts) and (e.truth != (not neg)) == truth:
                    return i
            if N.same(t, *texts) and (e.truth != neg) == truth:
                return i
    return None


def stmt_index(path, pred, start=0):
    for i, e in enumerate(path):
        if i >= start and e.kind in ('stmt', 'return') and pred(e):
            return i
    return None


def callee(call, env):
    """the called expression with path-local aliases substituted, as compact text (`pm.update` -> `self.parallel_manager.update`)"""
    return ast.unparse(resolve(call.func, env)).replace(' ', '')


def calls_on(path):
    """[(event index, Call node, resolved callee text, env)] for every call met on the path, in order"""
    out = []
    for i, e in enumerate(path):
        if e.kind in ('stmt', 'return'):
            nodes = [e.node]
            if isinstance(e.node, ast.With):
                nodes = [it.context_expr for it in e.node.items]
            for n in nodes:
                for c in ast.walk(n):
                    if isinstance(c, ast.Call):
                        out.append((i, c, callee(c, e.env), e.env))
        elif e.kind == 'cond':
            for c in ast.walk(e.node):
                if isinstance(c, ast.Call):
                    out.append((i, c, callee(c, e.env), e.env))
    return out


def stores_on(path):
    """[(event index, target text, resolved value)] for every assignment met on the path (chained targets give one entry each)"""
    out = []
    for i, e in enumerate(path):
        if e.kind == 'stmt' and isinstance(e.node, ast.Assign):
            for t in e.node.targets:
                tt = t
                if isinstance(t, ast.Subscript):
                    # the stored-to location with aliases of its base / index substituted (p[0] with p = &X[k] is X[k])
                    tl = N.clone(t)
                    tl.ctx = ast.Load()
                    tt = resolve(tl, e.env)
                out.append((i, ast.unparse(tt).replace(' ', ''), resolve(e.node.value, e.env)))
        elif e.kind == 'stmt' and isinstance(e.node, ast.AnnAssign) and e.node.value is not None:
            out.append((i, ast.unparse(e.node.target).replace(' ', ''), resolve(e.node.value, e.env)))
    return out


def path_facts(path):
    """[(expression, truth)]: the atomic facts the path has established by the way it decided its tests - tests are taken with the path-local names substituted,
    negations stripped, a false `a or b` gives both false, a true `a and b` both true"""
    out = []

    def add(t, truth):
        while isinstance(t, ast.UnaryOp) and isinstance(t.op, ast.Not):
            t, truth = t.operand, not truth
        if isinstance(t, ast.BoolOp) and ((isinstance(t.op, ast.Or) and not truth) or (isinstance(t.op, ast.And) and truth)):
            for v in t.values:
                add(v, truth)
        else:
            out.append((t, truth))
    for e in path:
        if e.kind == 'cond':
            add(resolve(e.node, e.env), e.truth)
    return out


class Atoms(object):
    """Truth-table view of a path: named atomic conditions (each given in positive and negated spellings, compared by norm.same with path-local names substituted)
    over which the tests of a path are boolean formulas; `possible(path, assignment)` tells whether the path can be taken when the atoms have the given truth values
    (tests that mention anything else are left open).  De Morgan respellings, swapped branches, split conjunctions and hoisted booleans all come out the same."""
    def __init__(self, atoms, inline_defs=None):
        self.atoms = atoms          # name -> (list of positive texts, list of negated texts)
        self.defs = inline_defs or {}
        self._f = {}
        self._p = {}

    def formula(self, x):
        key = ast.dump(x)
        if key in self._f:
            return self._f[key]
        r = None
        if isinstance(x, ast.BoolOp):
            r = ('and' if isinstance(x.op, ast.And) else 'or', [self.formula(v) for v in x.values])
        elif isinstance(x, ast.UnaryOp) and isinstance(x.op, ast.Not):
            r = ('not', [self.formula(x.operand)])
        elif isinstance(x, ast.Call) and isinstance(x.func, ast.Name) and x.func.id == 'bool' and len(x.args) == 1 and not x.keywords:
            r = self.formula(x.args[0])
        elif isinstance(x, ast.Constant) and isinstance(x.value, bool):
            r = ('const', x.value)
        elif isinstance(x, ast.Compare) and len(x.ops) > 1:
            terms = [x.left] + list(x.comparators)
            r = ('and', [self.formula(ast.Compare(left=terms[i], ops=[x.ops[i]], comparators=[terms[i + 1]])) for i in range(len(x.ops))])
        else:
            y = N.inline(x, self.defs) if self.defs else x
            for nm, (pos, neg) in self.atoms.items():
                if N.same(y, *pos):
                    r = ('atom', nm, True)
                    break
                if neg and N.same(y, *neg):
                    r = ('atom', nm, False)
                    break
        self._f[key] = r
        return r

    def val(self, f, env):
        if f is None:
            return None
        if f[0] == 'const':
            return f[1]
        if f[0] == 'atom':
            v = env.get(f[1])
            return None if v is None else (v == f[2])
        vs = [self.val(g, env) for g in f[1]]
        if f[0] == 'not':
            return None if vs[0] is None else not vs[0]
        if f[0] == 'and':
            return False if any(v is False for v in vs) else (None if any(v is None for v in vs) else True)
        return True if any(v is True for v in vs) else (None if any(v is None for v in vs) else False)

    def conds(self, path):
        k = id(path)
        if k not in self._p:
            self._p[k] = (path, [(self.formula(resolve(e.node, e.env)), e.truth) for e in path if e.kind == 'cond'])
        return self._p[k][1]

    def possible(self, path, env):
        return all(self.val(f, env) in (None, tr) for f, tr in self.conds(path) if f is not None)

    def models(self, path):
        """every assignment of the atoms under which the path can be taken"""
        import itertools
        names = sorted(self.atoms)
        out = []
        for vals in itertools.product((True, False), repeat=len(names)):
            env = dict(zip(names, vals))
            if self.possible(path, env):
                out.append(env)
        return out
