#!/venv/bin/python
"""tools/keep_refactor.py <ID> <dir with patch.diff, meta.json> <name>: keep a behaviour-preserving refactoring as a silent self-test variant of <ID>"""
import json, os, shutil, sys
pid, d, name = sys.argv[1:4]
dst = '/verif/selftest/refactors/%s-%s.diff' % (pid, name)
shutil.copy(os.path.join(d, 'patch.diff'), dst)
meta = json.load(open(os.path.join(d, 'meta.json'))) if os.path.exists(os.path.join(d, 'meta.json')) else {}
p = '/verif/selftest/%s.json' % pid
v = json.load(open(p)) if os.path.exists(p) else []
v = [x for x in v if x.get('name') != 'refactor:' + name]
v.append({"name": "refactor:" + name, "patch": "selftest/refactors/%s-%s.diff" % (pid, name), "silent": True, "_what": (meta.get('summary') or '')[:300]})
json.dump(v, open(p, 'w'), indent=1)
print('kept', dst)
