"""C19 - the adaptive time step is the documented minimum (static rules, DESIGN.md C19)."""
import ast
import os
import sys

sys.path.insert(0, os.path.dirname(os.path.dirname(os.path.abspath(__file__))))
from verif_static.core import run_check, AnalysisError  # noqa
from verif_static import model as M, cfg as C, norm as N  # noqa

INT = 'pysph/sph/integrator.py'
SOL = 'pysph/solver/solver.py'
INF = ('np.inf', 'numpy.inf', "float('inf')", 'math.inf', 'inf', 'self.dtype_max', 'DBL_MAX')
# criterion -> formula in terms of H (smallest h) and F (the criterion's maximum), from the property statement
FORMULA = {'dt_cfl': 'H / F', 'dt_force': 'sqrt(H / sqrt(F))', 'dt_visc': 'H / F'}


def compact(n):
    return M.unparse(n).replace(' ', '')


def U(n):
    return M.unparse(n)


def stmt_node(g, n):
    while n is not None and g.node_of(n) is None:
        n = getattr(n, 'parent', None)
    return g.node_of(n) if n is not None else None


def find_folds(fn):
    """running min/max folds: (var, kind, update node, loop)"""
    out = []
    for loop in ast.walk(fn):
        if not isinstance(loop, (ast.For, ast.While)):
            continue
        for n in ast.walk(loop):
            if isinstance(n, ast.Assign) and len(n.targets) == 1 and isinstance(n.value, ast.Call) \
                    and M.call_name(n.value) in ('min', 'max', 'fmin', 'fmax') and len(n.value.args) == 2:
                tv = U(n.targets[0])
                args = [U(a) for a in n.value.args]
                if tv in args:
                    out.append((tv, 'min' if 'min' in M.call_name(n.value) else 'max', n, loop))
            if isinstance(n, ast.If) and isinstance(n.test, ast.Compare) and len(n.test.ops) == 1 and len(n.body) == 1 \
                    and isinstance(n.body[0], ast.Assign) and not n.orelse:
                a = n.body[0]
                tv = U(a.targets[0])
                l, r = U(n.test.left), U(n.test.comparators[0])
                op = n.test.ops[0]
                val = U(a.value)
                if isinstance(op, (ast.Lt, ast.LtE)) and r == tv and l == val:
                    out.append((tv, 'min', n, loop))
                elif isinstance(op, (ast.Gt, ast.GtE)) and r == tv and l == val:
                    out.append((tv, 'max', n, loop))
                elif isinstance(op, (ast.Gt, ast.GtE)) and l == tv and r == val:
                    out.append((tv, 'min', n, loop))
                elif isinstance(op, (ast.Lt, ast.LtE)) and l == tv and r == val:
                    out.append((tv, 'max', n, loop))
    # keep outermost loop per (var, node)
    uniq = {}
    for tv, kind, n, loop in out:
        k = (tv, id(n))
        if k not in uniq or loop.lineno < uniq[k][3].lineno:
            uniq[k] = (tv, kind, n, loop)
    return list(uniq.values())


def seed_of(fn, var, loop):
    """the assignment to `var` (or its container) that precedes `loop`"""
    base = var.split('[')[0]
    best = None
    for n in ast.walk(fn):
        if isinstance(n, (ast.Assign, ast.AnnAssign)) and n.lineno < loop.lineno:
            tg = n.targets if isinstance(n, ast.Assign) else [n.target]
            val = n.value
            if val is None:
                continue
            for t in tg:
                names = [U(x) for x in (t.elts if isinstance(t, ast.Tuple) else [t])]
                if base in names or var in names:
                    if best is None or n.lineno > best.lineno:
                        best = n
    return best


def rule_folds(chk, rel, tree, fnames):
    n = 0
    for cname, fname in fnames:
        fn = M.find_method(tree, cname, fname)
        for var, kind, node, loop in find_folds(fn):
            seed = seed_of(fn, var, loop)
            n += 1
            inst = '%s.%s:%s(%s)' % (cname, fname, kind, var)
            if seed is None:
                chk.undecided('fold-identity', inst, node=node, file=rel, func=fname, detail='no seed assignment found')
                continue
            # what is folded in is computed in this call: a value kept in the object's own state from an earlier call (a cache of the minimum of a "static" array ...)
            # goes stale when the data changes
            operand = None
            if isinstance(node, ast.If):
                a_ = node.body[0]
                operand = a_.value
            elif isinstance(node, ast.Assign) and isinstance(node.value, ast.Call):
                operand = [x for x in node.value.args if U(x) != var][0] if [x for x in node.value.args if U(x) != var] else None
            stale = []
            if operand is not None:
                exprs = [operand]
                if isinstance(operand, ast.Name):
                    exprs = [d.value for d in ast.walk(fn) if isinstance(d, ast.Assign) and U(d.targets[0]) == operand.id]
                for e_ in exprs:
                    called = set(id(c.func) for c in ast.walk(e_) if isinstance(c, ast.Call))
                    for x_ in ast.walk(e_):
                        if isinstance(x_, (ast.Attribute, ast.Subscript)) and id(x_) not in called:
                            root = x_
                            while isinstance(root, (ast.Attribute, ast.Subscript)):
                                root = root.value
                            if isinstance(root, ast.Name) and root.id == 'self' and isinstance(x_, ast.Subscript):
                                stale.append(U(x_))
                chk.decide(not stale, 'fold-identity', inst + ':operand-computed-in-this-call', node=node, file=rel, func=fname,
                           detail_bad='the value folded into %s can come from %s - state kept on the object from an earlier call, not recomputed from the arrays as they are now' % (var, stale),
                           detail_ok='folds %s' % U(operand))
            sv = seed.value
            vals = [sv]
            if isinstance(sv, (ast.List, ast.Tuple)):
                vals = list(sv.elts)
            if kind == 'min':
                ok = all(U(v) in INF or (isinstance(v, ast.Constant) and isinstance(v.value, (int, float)) and v.value >= 1e20)
                         for v in vals)
                chk.decide(ok, 'fold-identity', inst, node=seed, file=rel, func=fname,
                           detail_bad='running minimum %s is seeded with %s: any data above the seed is ignored' % (var, U(sv)),
                           detail_ok='seeded with %s' % U(sv))
            else:
                neg = all((isinstance(v, ast.UnaryOp) and isinstance(v.op, ast.USub) and isinstance(v.operand, ast.Constant))
                          or U(v).startswith('-') for v in vals)
                chk.decide(neg, 'fold-identity', inst, node=seed, file=rel, func=fname,
                           detail_bad='running maximum %s of non-negative criteria is seeded with %s (not below every admissible value)' % (var, U(sv)),
                           detail_ok='seeded with %s (< every admissible value; consumers test > 0)' % U(sv))
    return n


def rule_fresh(chk, rel, tree, quick_scope=None):
    """every read of a cached .minimum/.maximum is dominated by a refresh of the same receiver"""
    n = 0
    for fn in [f for f in ast.walk(tree) if isinstance(f, ast.FunctionDef)]:
        reads = [a for a in ast.walk(fn) if isinstance(a, ast.Attribute) and a.attr in ('minimum', 'maximum')
                 and isinstance(a.ctx, ast.Load) and M.enclosing_func(a) is fn and M.dotted(a.value) is not None
                 and M.dotted(a.value).split('.')[0] not in ('np', 'numpy', 'array', 'math')]
        if not reads:
            continue
        if quick_scope is not None and fn.name not in quick_scope:
            continue
        g = C.build_cfg(fn)
        refresh = []
        for c in M.calls(fn):
            nm = M.call_name(c) or ''
            if nm.endswith('.update_min_max') or nm.endswith('.update_minmax_cl') or nm.endswith('.update_minmax'):
                refresh.append((nm.rsplit('.', 1)[0], stmt_node(g, c), c))
        # local aliases  x = pa.x
        alias = {}
        for a in ast.walk(fn):
            if isinstance(a, ast.Assign) and len(a.targets) == 1 and isinstance(a.targets[0], ast.Name) \
                    and M.dotted(a.value) is not None:
                alias.setdefault(a.targets[0].id, set()).add(M.dotted(a.value))
            if isinstance(a, ast.Assign) and isinstance(a.value, ast.Call) and isinstance(a.targets[0], ast.Name):
                nm = M.call_name(a.value) or ''
                if nm.endswith('.get_carray') or nm.endswith('.get_device_array'):
                    alias.setdefault(a.targets[0].id, set()).add(nm.rsplit('.', 1)[0] + '.<carray>')
        seen = set()
        for r in reads:
            recv = M.dotted(r.value)
            key = (fn.name, recv)
            if key in seen:
                continue
            seen.add(key)
            rn = stmt_node(g, r)
            owners = {recv} | alias.get(recv, set())
            for o in list(owners):
                owners |= set(o.rsplit('.', i)[0] for i in range(1, o.count('.') + 1))
                # pa_wrapper.x is refreshed by pa_wrapper.pa.update_min_max()
                if '.' in o:
                    owners.add(o.rsplit('.', 1)[0] + '.pa')
                    owners.add(o.rsplit('.', 1)[0] + '.gpu')
            valid = [rid for base, rid, c in refresh if rid is not None and base in owners
                     and not (rid == rn and c.lineno > r.lineno)]
            ok = rn is not None and bool(valid) and g.must_pass(g.entry, rn, valid) and rn not in valid
            n += 1
            chk.decide(ok, 'cached-minmax-fresh', '%s:%s' % (M.qualname(fn), recv), node=r, file=rel, func=M.qualname(fn),
                       detail_bad='%s.%s is read but no update_min_max() on that array dominates the read '
                                  '(the cached value is whatever an earlier, unrelated call left there)' % (recv, r.attr),
                       detail_ok='refresh dominates the read')
    return n


def rule_provenance(chk, tree):
    cls = M.find_class(tree, 'Integrator')
    fac = M.find_func(cls, '_get_dt_adapt_factors')
    cts = M.find_func(cls, 'compute_time_step')
    # 1. which factor is which: decided by interpreting _get_dt_adapt_factors on model arrays (rule_factors_model) - the k-th returned value is the maximum of the
    #    k-th criterion property over the arrays that define it
    order = ['dt_cfl', 'dt_force', 'dt_visc']
    chk.floor('model runs of _get_dt_adapt_factors', rule_factors_model(chk, tree), 40)
    # 2.-4. compute_time_step and _get_explicit_dt_adapt are decided per feasible path through the methods (private helpers inlined, path-local names substituted), and
    #       the returned step is compared with cfl * min(<formula of every criterion whose factor is positive>) as algebra (value numbering), not as text
    rule_step_value(chk, tree, order)


def rule_factors_model(chk, tree):
    """Integrator._get_dt_adapt_factors interpreted (E8) on model particle arrays: for every order of the arrays, factor k is the maximum of criterion property k over the
    arrays that define it (each array's own maximum; on the GPU the maximum refreshed for that property in this call), -1 when no array defines it or all are empty"""
    import itertools
    from verif_static import emit as EM, absint as AI
    cls = M.find_class(tree, 'Integrator')
    fac = M.find_func(cls, '_get_dt_adapt_factors')
    NAMES = ('dt_cfl', 'dt_force', 'dt_visc')
    saved = dict((k, AI.EXTERNAL_CALLS.get(k)) for k in ('numpy.max', 'numpy.amax'))
    AI.EXTERNAL_CALLS['numpy.max'] = AI.EXTERNAL_CALLS['numpy.amax'] = lambda i, a, k, n, e: max(a[0])

    def cpu(name, **vals):
        return EM.mock(name=name, gpu=None, properties=dict((k, EM.mock()) for k in list(vals) + ['x', 'h']), get=lambda i, a, k, n, e: list(vals[a[0]]) if a[0] in vals else [0.0])

    def gpu(name, **vals):
        cols = dict((k, EM.mock(maximum=97.0 + j, minimum=-5.0)) for j, k in enumerate(vals))      # stale until refreshed

        def upd(i, a, k, n, e):
            only_max = k.get('only_max', a[1] if len(a) > 1 else False)
            for nm in a[0]:
                if nm in cols:
                    cols[nm].attrs['maximum'] = max(vals[nm])
                    if not only_max:
                        cols[nm].attrs['minimum'] = min(vals[nm])
            return None
        g = EM.mock(update_minmax_cl=upd, **cols)
        return EM.mock(name=name, gpu=g, properties=dict((k, EM.mock()) for k in list(vals) + ['x', 'h']), get=lambda i, a, k, n, e: AI.Opaque('host copy'))
    ARRAYS = {'wall': lambda: cpu('wall'), 'fluid': lambda: cpu('fluid', dt_cfl=[0.1, 0.3], dt_force=[0.5], dt_visc=[0.7, 0.6]),
              'solid': lambda: cpu('solid', dt_cfl=[0.9, 0.2]), 'empty': lambda: cpu('empty', dt_cfl=[], dt_force=[], dt_visc=[]),
              'dev': lambda: gpu('dev', dt_force=[1.1, 0.4], dt_visc=[0.2]), 'devwall': lambda: gpu('devwall')}

    def expect(names):
        out = []
        data = {'fluid': {'dt_cfl': 0.3, 'dt_force': 0.5, 'dt_visc': 0.7}, 'solid': {'dt_cfl': 0.9}, 'dev': {'dt_force': 1.1, 'dt_visc': 0.2},
                'empty': {'dt_cfl': -1.0, 'dt_force': -1.0, 'dt_visc': -1.0}}
        for k in NAMES:
            out.append(max([-1.0] + [data[n_][k] for n_ in names if k in data.get(n_, {})]))
        return tuple(out)
    cases = [c for r in (1, 2, 3) for c in itertools.permutations(('wall', 'fluid', 'solid', 'dev'), r)] + [('wall',), ('empty', 'wall'), ('wall', 'empty', 'devwall'), ('devwall', 'dev', 'fluid'),
                                                                                                          ('empty', 'fluid'), ('fluid', 'empty'), ()]
    bad, und = [], None
    try:
        for names in cases:
            it = EM.interpreter()
            # only `fluid` is integrated: the criteria of arrays without a stepper (walls, bodies moved by a callback) limit the step all the same
            integ = EM.instance(it, INT, 'Integrator', acceleration_evals=[EM.mock(particle_arrays=[ARRAYS[n_]() for n_ in names])], steppers={'fluid': EM.mock(name='FluidStep')},
                                fixed_h=False, h_minimum=None)
            try:
                got = EM.call(it, integ, '_get_dt_adapt_factors')
            except AI.Unsupported as e:
                und = 'arrays %s: %s' % (list(names), e)
                break
            try:
                gt = tuple(float(x) for x in got)
            except Exception:
                und = 'arrays %s: result %r' % (list(names), got)
                break
            if any((g_ != w_) if w_ > 0 else not (g_ < 0) for g_, w_ in zip(gt, expect(names))) or len(gt) != 3:
                bad.append((names, gt, expect(names)))
    finally:
        for k, v in saved.items():
            if v is None:
                AI.EXTERNAL_CALLS.pop(k, None)
            else:
                AI.EXTERNAL_CALLS[k] = v
    if und:
        chk.undecided('criterion-provenance', 'factors:model-run', node=fac, file=INT, func='_get_dt_adapt_factors', detail='not interpretable on the model: ' + und)
    else:
        chk.decide(not bad, 'criterion-provenance', 'factors:model-run', node=fac, file=INT, func='_get_dt_adapt_factors',
                   detail_bad='for the model arrays %s (in this order) the factors (dt_cfl, dt_force, dt_visc) come out as %s; the maxima over the arrays that define each property are %s'
                              % ((list(bad[0][0]), bad[0][1], bad[0][2]) if bad else ('', '', '')),
                   detail_ok='%d orders / selections of six model arrays (CPU, GPU with stale cached maxima, empty, without the properties)' % len(cases))
    return len(cases)


def rule_dt_adapt_model(chk, tree):
    """Integrator._get_explicit_dt_adapt interpreted (E8) over a *history* on one integrator object: the particle data changes between calls (a new particle whose dt_adapt is
    still 0, then positive values again, an array that gets particles later); each call must answer from the data as it is then - the smallest positive-tested dt_adapt over the
    real particles of the arrays that have the property, None when that minimum is not positive"""
    from verif_static import emit as EM, absint as AI
    cls = M.find_class(tree, 'Integrator')
    fn = M.find_func(cls, '_get_explicit_dt_adapt')
    saved = dict((k, AI.EXTERNAL_CALLS.get(k)) for k in ('numpy.min', 'numpy.amin', 'compyle.array.minimum'))
    AI.EXTERNAL_CALLS['numpy.min'] = AI.EXTERNAL_CALLS['numpy.amin'] = lambda i, a, k, n, e: min(a[0])
    AI.EXTERNAL_CALLS['compyle.array.minimum'] = lambda i, a, k, n, e: min(a[0])
    INF = float('inf')

    def arr(name, values, has=True):
        data = {'v': list(values)}
        props = {'x': 1, 'dt_adapt': 1} if has else {'x': 1}
        m = EM.mock(name=name, gpu=None, properties=props, get_number_of_particles=lambda i, a, k, n, e: len(data['v']))
        m.attrs['dt_adapt'] = data['v']
        return m, data
    bad, und, ncalls = None, None, 0
    try:
        it = EM.interpreter()
        a1, d1 = arr('fluid', [0.5, 0.3])
        a2, d2 = arr('wall', [], has=False)
        a3, d3 = arr('inlet', [])
        integ = EM.instance(it, INT, 'Integrator', acceleration_evals=[EM.mock(particle_arrays=[a2, a1, a3])], _has_dt_adapt=None)
        HISTORY = [([0.5, 0.3], [], 0.3), ([0.5, 0.0, 0.3], [], None), ([0.5, 0.2, 0.3], [], 0.2), ([0.5, 0.2, 0.3], [0.05], 0.05), ([0.0, 0.0], [0.0], None), ([0.7, 0.9], [], 0.7)]
        for v1, v3, want in HISTORY:
            d1['v'][:] = v1
            d3['v'][:] = v3
            try:
                got = EM.call(it, integ, '_get_explicit_dt_adapt')
            except AI.Unsupported as ex:
                und = 'step %d: %s' % (ncalls, ex)
                break
            ncalls += 1
            same_ = (got is None and want is None) or (got is not None and want is not None and not AI.unknown(got) and float(got) == want)
            if not same_ and bad is None:
                bad = (ncalls, v1, v3, got, want)
    finally:
        for k, v in saved.items():
            if v is None:
                AI.EXTERNAL_CALLS.pop(k, None)
            else:
                AI.EXTERNAL_CALLS[k] = v
    if und:
        chk.undecided('dt-adapt-override', 'history:model-run', node=fn, file=INT, func='_get_explicit_dt_adapt', detail='not interpretable on the model: ' + und)
    else:
        chk.decide(bad is None, 'dt-adapt-override', 'history:model-run', node=fn, file=INT, func='_get_explicit_dt_adapt',
                   detail_bad='call %s of a history on one integrator (fluid dt_adapt = %s, inlet dt_adapt = %s, the wall has no such property) returns %s, the data then demands %s: an '
                              'answer remembered from an earlier state of the particles overrides what they say now' % (bad or ('', '', '', '', '')),
                   detail_ok='%d calls over a history with zero, positive and newly added values' % ncalls)
    return ncalls


def rule_hmin_model(chk, tree):
    """Integrator.compute_h_minimum interpreted (E8) on model arrays: h_minimum is the smallest h over every array that holds particles (whatever their tag - "the
    smallest smoothing length"), read from a minimum refreshed in this call; arrays without particles are skipped (the cached minimum of an empty array is meaningless)"""
    import itertools
    from verif_static import emit as EM, absint as AI
    cls = M.find_class(tree, 'Integrator')
    fn = M.find_func(cls, 'compute_h_minimum')
    INF = float('inf')
    saved = AI.EXTERNAL_CALLS.get('numpy.inf')

    def arr(name, total, real, hmin, on_gpu=False):
        col = EM.mock(minimum=-3.0, maximum=99.0)            # stale cache: smaller than any h

        def refresh(i, a, k, n, e):
            col.attrs['minimum'] = hmin if total > 0 else 1e-30
            return None

        def count(i, a, k, n, e):
            r_ = k.get('real', a[0] if a else False)
            return real if r_ else total
        if on_gpu:
            def upd(i, a, k, n, e):
                if 'h' in a[0]:
                    refresh(i, a, k, n, e)
                return None
            g = EM.mock(get_device_array=lambda i, a, k, n, e: col if a[0] == 'h' else EM.mock(minimum=-5.0), update_minmax_cl=upd, get_number_of_particles=count)
            return EM.mock(name=name, gpu=g, get_number_of_particles=count, get_carray=lambda i, a, k, n, e: EM.mock(minimum=-9.0, update_min_max=lambda *x: None))
        col.attrs['update_min_max'] = refresh
        return EM.mock(name=name, gpu=None, get_number_of_particles=count, get_carray=lambda i, a, k, n, e: col if a[0] == 'h' else EM.mock(minimum=-5.0, update_min_max=lambda *x: None))
    SPEC = {'fluid': ('fluid', 5, 5, 0.4, False), 'ghosts': ('ghosts', 4, 0, 0.1, False), 'empty': ('empty', 0, 0, None, False), 'dev': ('dev', 3, 2, 0.25, True),
            'devempty': ('devempty', 0, 0, None, True), 'coarse': ('coarse', 2, 2, 0.9, False)}
    cases = [c for r in (1, 2, 3) for c in itertools.permutations(('fluid', 'ghosts', 'empty', 'coarse'), r)] + [('dev',), ('devempty', 'coarse'), ('coarse', 'dev', 'empty'), ('empty',), ()]
    bad, und = [], None
    for names in cases:
        it = EM.interpreter()
        integ = EM.instance(it, INT, 'Integrator', acceleration_evals=[EM.mock(particle_arrays=[arr(*SPEC[n_]) for n_ in names])], h_minimum=None)
        try:
            EM.call(it, integ, 'compute_h_minimum')
        except AI.Unsupported as e:
            und = 'arrays %s: %s' % (list(names), e)
            break
        got = integ.attrs.get('h_minimum')
        if isinstance(got, AI.External) and got.key in ('numpy.inf', 'numpy.Inf', 'math.inf'):
            got = INF
        want = min([INF] + [SPEC[n_][3] for n_ in names if SPEC[n_][1] > 0])
        try:
            same_v = float(got) == want
        except Exception:
            und = 'arrays %s: h_minimum is %r' % (list(names), got)
            break
        if not same_v:
            bad.append((names, got, want))
    # set_fixed_h over a history: every set_fixed_h(True) leaves h_minimum = the smallest h of the arrays as they are *then* (the solver is set up again with refined arrays,
    # a callback shrinks h and asks again); the flag ends as given
    sf = M.find_func(cls, 'set_fixed_h')
    hist_bad, hist_und = None, None
    for seq in ((True, True), (False, True, True), (True, False, True), (True, True, False)):
        cur = {'h': 0.4}
        col = EM.mock(minimum=-3.0, maximum=99.0)

        def refresh(i, a, k, n, e, col=col, cur=cur):
            col.attrs['minimum'] = cur['h']
            return None
        col.attrs['update_min_max'] = refresh
        pa = EM.mock(name='fluid', gpu=None, get_number_of_particles=lambda i, a, k, n, e: 5, get_carray=lambda i, a, k, n, e, col=col: col if a[0] == 'h' else EM.mock(minimum=-5.0, update_min_max=lambda *x: None))
        it = EM.interpreter()
        integ = EM.instance(it, INT, 'Integrator', acceleration_evals=[EM.mock(particle_arrays=[pa])], h_minimum=None, fixed_h=False)
        try:
            want = None
            for step, flag in enumerate(seq):
                cur['h'] = 0.4 / (step + 1)                 # the arrays were refined since the last call
                EM.call(it, integ, 'set_fixed_h', flag)
                if flag:
                    want = cur['h']
                got = integ.attrs.get('h_minimum')
                if flag and not (isinstance(got, (int, float)) and float(got) == want):
                    hist_bad = hist_bad or (seq, step, got, want)
            if bool(integ.attrs.get('fixed_h')) != bool(seq[-1]):
                hist_bad = hist_bad or (seq, len(seq) - 1, 'fixed_h=%r' % (integ.attrs.get('fixed_h'),), seq[-1])
        except AI.Unsupported as e:
            hist_und = 'calls %s: %s' % (list(seq), e)
            break
    if hist_und:
        chk.undecided('fold-identity', 'set_fixed_h:history', node=sf, file=INT, func='set_fixed_h', detail='not interpretable on the model: ' + hist_und)
    else:
        chk.decide(hist_bad is None, 'fold-identity', 'set_fixed_h:history', node=sf, file=INT, func='set_fixed_h',
                   detail_bad='calls set_fixed_h%s on a model integrator whose array is refined between the calls (smallest h 0.4, 0.2, 0.1333...): after call %s h_minimum is %s, the '
                              'smallest h then is %s - the stale, larger minimum makes every later step too large' % ((list(hist_bad[0]), hist_bad[1] + 1, hist_bad[2], hist_bad[3]) if hist_bad else ('', '', '', '')),
                   detail_ok='4 call histories: every set_fixed_h(True) recomputes the minimum from the arrays as they are then')
    if und:
        chk.undecided('fold-identity', 'h-minimum:model-run', node=fn, file=INT, func='compute_h_minimum', detail='not interpretable on the model: ' + und)
    else:
        chk.decide(not bad, 'fold-identity', 'h-minimum:model-run', node=fn, file=INT, func='compute_h_minimum',
                   detail_bad='for the model arrays %s (particles, real particles, smallest h: %s) h_minimum comes out as %s, the smallest h of the arrays that hold particles is %s'
                              % ((list(bad[0][0]), [SPEC[n_][1:4] for n_ in bad[0][0]], bad[0][1], bad[0][2]) if bad else ('', '', '', '')),
                   detail_ok='%d orders / selections of six model arrays (CPU and GPU with stale cached minima, only ghost particles, empty)' % len(cases))
    return len(cases)


def _is_inf(e):
    return compact(e) in [x.replace(' ', '') for x in INF]


def rule_step_value(chk, tree, order):
    from verif_static import paths as PT, symb as S
    cls_raw = M.find_class(tree, 'Integrator')
    PINNED = ('_get_dt_adapt_factors', '_get_explicit_dt_adapt', '_my_max')
    cls = M.inlined_class(cls_raw, keep=set(PINNED) | set(n_ for n_ in M.methods(cls_raw) if not n_.startswith('_')))
    cts = M.find_func(cls, 'compute_time_step')
    cfl_name = M.arg_names(cts)[2] if len(M.arg_names(cts)) > 2 else 'cfl'
    pths = PT.enumerate_paths(M.docstring_stripped(cts.body))
    chk.unit('paths through compute_time_step', len(pths))

    def to_poly(ctx, ev, e):
        class R(ast.NodeTransformer):
            def visit_Call(self, n):
                self.generic_visit(n)
                if (M.call_name(n) or '') in ('np.sqrt', 'numpy.sqrt', 'math.sqrt'):
                    return ast.Call(func=ast.Name(id='sqrt', ctx=ast.Load()), args=n.args, keywords=[])
                return n
        import copy
        return ev.ev(R().visit(copy.deepcopy(e)))
    bad = {}
    n_over = n_crit = n_none = 0
    for p_ in pths:
        ret = p_[-1]
        if ret.kind != 'return':
            bad.setdefault('every-path-returns', 'a path falls off the end')
            continue
        rv = PT.resolve(ret.node.value, ret.env) if ret.node.value is not None else ast.Constant(value=None)
        cl = PT.calls_on(p_)
        ex = [i for i, c, cal, env in cl if cal == 'self._get_explicit_dt_adapt']
        fa = [i for i, c, cal, env in cl if cal == 'self._get_dt_adapt_factors']
        over_t = PT.took(p_, True, 'self._get_explicit_dt_adapt() is not None')
        over_f = PT.took(p_, False, 'self._get_explicit_dt_adapt() is not None')
        if over_t is not None:
            n_over += 1
            if compact(rv) != 'self._get_explicit_dt_adapt()' or (fa and fa[0] < over_t):
                bad.setdefault('override-first', 'with an explicit dt_adapt the path returns %s' % U(rv))
            continue
        if over_f is None or not ex:
            bad.setdefault('override-first', 'a path consults the criteria without first asking for an explicit dt_adapt')
            continue
        # factor names, positionally
        # (the three factors may be unpacked from the call itself or from a local that holds its result)
        un = [e for e in p_ if e.kind == 'stmt' and isinstance(e.node, ast.Assign) and isinstance(e.node.targets[0], ast.Tuple)
              and isinstance(PT.resolve(e.node.value, e.env), ast.Call) and PT.callee(PT.resolve(e.node.value, e.env), {}) == 'self._get_dt_adapt_factors']
        if len(un) != 1 or len(un[0].node.targets[0].elts) != 3:
            bad.setdefault('formula', 'the three factors of _get_dt_adapt_factors() are not unpacked once on a path')
            continue
        fvars = [U(x) for x in un[0].node.targets[0].elts]
        pos = []
        for fv in fvars:
            t_ = PT.took(p_, True, '%s > 0' % fv)
            f_ = PT.took(p_, False, '%s > 0' % fv)
            pos.append(True if t_ is not None else (False if f_ is not None else None))
        if isinstance(rv, ast.Constant) and rv.value is None:
            n_none += 1
            # None is returned exactly when no criterion applies or the minimum is not positive: the path decided `isinf(m) or m <= 0` that way
            dec = [e for e in p_ if e.kind == 'cond' and 'isinf' in U(PT.resolve(e.node, e.env))]
            if not dec:
                bad.setdefault('none-when-no-criterion', 'a path returns None without testing the minimum for inf / non-positive')
            continue
        n_crit += 1
        # a step is only returned after the minimum was found finite AND positive (facts established by the path, locals substituted)
        facts_ = PT.path_facts(p_)
        fvals = [compact(PT.resolve(ast.Name(id=fv_, ctx=ast.Load()), p_[-1].env)) for fv_ in fvars] + fvars

        def about_min(x):
            # a comparison of something that is not one of the factors with zero
            return isinstance(x, ast.Compare) and len(x.ops) == 1 and not any(compact(s_) in fvals for s_ in (x.left, x.comparators[0]))
        fin = any(not tr_ and isinstance(x, ast.Call) and (M.call_name(x) or '').endswith('isinf') for x, tr_ in facts_)
        posv = any(about_min(x) and ((not tr_ and N.same(x, '%s <= 0' % U(x.left), '0 >= %s' % U(x.comparators[0]))) or (tr_ and N.same(x, '%s > 0' % U(x.left), '0 < %s' % U(x.comparators[0]))))
                   for x, tr_ in facts_)
        if not (fin and posv):
            bad.setdefault('none-when-no-criterion', 'a step is returned on a path that has not found the minimum both finite and positive (None must be returned when it is inf or <= 0)')
        if None in pos:
            bad.setdefault('skip-unless-positive', 'a path applies the criteria without testing factor %s > 0' % fvars[pos.index(None)])
            continue
        # expected terms
        ctx = S.Ctx(seconds=20)
        ctx.positive.add(cfl_name)
        ctx.positive.add('self.h_minimum')
        for fv in fvars:
            ctx.positive.add(fv)
        noargs = ast.arguments(posonlyargs=[], args=[], kwonlyargs=[], kw_defaults=[], defaults=[])
        ev = S.Evaluator(ctx, ast.FunctionDef(name='f', args=noargs, body=[ast.Pass()], decorator_list=[]))
        try:
            want = []
            for crit, fv, on in zip(order, fvars, pos):
                if on:
                    want.append((crit, to_poly(ctx, ev, ast.parse('%s * (%s)' % (cfl_name, FORMULA[crit].replace('H', 'self.h_minimum').replace('F', fv)), mode='eval').body)))
            # returned value: k * min(args) or min(args)
            k_, mn = None, rv
            if isinstance(rv, ast.BinOp) and isinstance(rv.op, ast.Mult):
                for a_, b_ in ((rv.left, rv.right), (rv.right, rv.left)):
                    if isinstance(b_, ast.Call) and M.call_name(b_) == 'min':
                        k_, mn = a_, b_
            if isinstance(mn, ast.Call) and M.call_name(mn) == 'min' and len(mn.args) == 1 and isinstance(mn.args[0], (ast.Tuple, ast.List)):
                mn = ast.Call(func=mn.func, args=list(mn.args[0].elts), keywords=[])           # min((a, b, c)) is min(a, b, c)
            if not (isinstance(mn, ast.Call) and M.call_name(mn) == 'min'):
                bad.setdefault('min-of-all-criteria', 'the returned step %s is not (a multiple of) the minimum over the criteria' % U(rv))
                continue
            terms = [a_ for a_ in mn.args if not _is_inf(a_)]
            got = [to_poly(ctx, ev, ast.BinOp(left=k_, op=ast.Mult(), right=a_) if k_ is not None else a_) for a_ in terms]
            if len(got) != len(want):
                bad.setdefault('min-of-all-criteria', 'with factors positive = %s the step is %s: %d finite terms for %d applicable criteria' % (pos, U(rv), len(got), len(want)))
                continue
            left = list(want)
            for g_ in got:
                hit = [w_ for w_ in left if ctx.prove_zero(g_ - w_[1])[0]]
                if not hit:
                    bad.setdefault('formula', 'with factors positive = %s the step %s has a term that is none of cfl*%s' % (pos, U(rv), [FORMULA[c_] for c_, w_ in left]))
                    break
                left.remove(hit[0])
        except (S.Unsupported, S.Budget) as e:
            chk.undecided('criterion-provenance', 'formula', node=cts, file=INT, func='compute_time_step', detail='returned step not expressible: %s' % e)
            return
    for inst, text in (('every-path-returns', 'every path returns'), ('override-first', 'an explicit dt_adapt is returned before the criteria are consulted'),
                       ('skip-unless-positive', 'each criterion applies only when its factor is positive'), ('min-of-all-criteria', 'cfl * min over the applicable criteria'),
                       ('formula', 'cfl*h/F_cfl, cfl*sqrt(h/sqrt(F_force)), cfl*h/F_visc (value numbering)'), ('none-when-no-criterion', 'None when nothing applies')):
        rule = 'dt-adapt-override' if inst == 'override-first' else 'criterion-provenance'
        chk.decide(inst not in bad, rule, inst, node=cts, file=INT, func='compute_time_step', detail_bad=bad.get(inst, ''), detail_ok=text)
    chk.decide(n_over >= 1 and n_crit >= 7 and n_none >= 1, 'criterion-provenance', 'path-coverage', node=cts, file=INT, func='compute_time_step',
               detail_bad='expected override, None and all 7 non-empty sign patterns of the factors among the paths: %d / %d / %d' % (n_over, n_none, n_crit),
               detail_ok='%d override, %d None, %d criterion paths' % (n_over, n_none, n_crit))
    # h_minimum is refreshed on every criterion path unless fixed_h
    # _get_explicit_dt_adapt
    ex = M.find_func(cls, '_get_explicit_dt_adapt')
    epaths = PT.enumerate_paths(M.docstring_stripped(ex.body))
    loops = []
    badx = {}
    accs = set()
    for p_ in epaths:
        r_ = p_[-1]
        if r_.kind == 'return' and isinstance(r_.node.value, ast.Name):
            accs.add(r_.node.value.id)
    acc = sorted(accs)[0] if len(accs) == 1 else None
    if acc is not None:
        loops = [l for l in ast.walk(ex) if isinstance(l, ast.For) and any(isinstance(a, ast.Assign) and U(a.targets[0]) == acc for a in ast.walk(l))]
    if acc is None or not loops:
        chk.undecided('dt-adapt-override', 'shape', node=ex, file=INT, func='_get_explicit_dt_adapt', detail='cannot identify the running minimum (returned names %s)' % sorted(accs))
    else:
        npos = 0
        for p_ in epaths:
            r_ = p_[-1]
            if r_.kind != 'return':
                badx.setdefault('positive-or-none', 'a path falls off the end')
                continue
            t_ = PT.took(p_, True, '%s > 0' % acc)
            f_ = PT.took(p_, False, '%s > 0' % acc)
            isn = isinstance(r_.node.value, ast.Constant) and r_.node.value.value is None or r_.node.value is None
            if t_ is not None:
                npos += 1
                if isn or not (isinstance(r_.node.value, ast.Name) and r_.node.value.id == acc):
                    badx.setdefault('positive-or-none', 'with a positive minimum the path does not return it')
            elif not isn:
                badx.setdefault('positive-or-none', 'a path returns %s without the minimum being tested positive' % U(r_.node.value))
        if npos == 0:
            badx.setdefault('positive-or-none', 'no path returns a positive minimum')
        lp = loops[0]
        av = U(lp.target)
        # the arrays looked at are the evaluator's current ones, not a list remembered from an earlier call
        ldefs = N.local_defs([ex])
        it_res = compact(N.inline(lp.iter, ldefs))
        if it_res != 'self.acceleration_evals[0].particle_arrays':
            badx.setdefault('only-arrays-with-property', 'the minimum is taken over `%s`, not over the current particle arrays of the evaluator (a remembered selection misses arrays that '
                                                         'were empty, or lacked the property, when it was made)' % it_res)
        seeds_ = [a for a in ast.walk(ex) if isinstance(a, ast.Assign) and U(a.targets[0]) == acc and _is_inf(a.value)]
        if not seeds_:
            badx.setdefault('empty-arrays-are-inf', 'the running minimum does not start at +inf')
        nupd = 0
        for q_ in PT.enumerate_paths(list(lp.body)):
            has = PT.took(q_, True, "'dt_adapt' in %s.properties" % av)
            ups = [(i, v) for i, tg, v in PT.stores_on(q_) if tg == acc]
            if has is None:
                if ups:
                    badx.setdefault('only-arrays-with-property', 'an array without dt_adapt changes the minimum')
                continue
            if len(ups) != 1 or not (isinstance(ups[0][1], ast.Call) and M.call_name(ups[0][1]) == 'min' and len(ups[0][1].args) == 2 and acc in [U(x) for x in ups[0][1].args]):
                badx.setdefault('min-over-real-particles', 'an array with dt_adapt does not fold its minimum into %s with min(%s, .)' % (acc, acc))
                continue
            nupd += 1
            val = [x for x in ups[0][1].args if U(x) != acc][0]
            gpu = PT.took(q_, True, '%s.gpu is not None' % av) is not None
            cnt = '%s.gpu.get_number_of_particles() > 0' % av if gpu else '%s.get_number_of_particles() > 0' % av
            nonempty = PT.took(q_, True, cnt)
            empty = PT.took(q_, False, cnt)
            if nonempty is not None:
                want_v = ('minimum(%s.gpu.dt_adapt)' % av,) if gpu else ('np.min(%s.dt_adapt)' % av, 'numpy.min(%s.dt_adapt)' % av, 'min(%s.dt_adapt)' % av, '%s.dt_adapt.min()' % av)
                if compact(val) not in [w_.replace(' ', '') for w_ in want_v]:
                    badx.setdefault('min-over-real-particles', 'a non-empty array contributes %s, not the minimum of its dt_adapt over the real particles' % U(val))
            elif empty is not None:
                if not _is_inf(val):
                    badx.setdefault('empty-arrays-are-inf', 'an empty array contributes %s, not +inf' % U(val))
            else:
                badx.setdefault('empty-arrays-are-inf', 'the array is reduced without testing that it has particles')
        if nupd == 0:
            badx.setdefault('min-over-real-particles', 'no path folds an array into the minimum')
        for inst, text in (('positive-or-none', 'dt_min if > 0 else None'), ('empty-arrays-are-inf', '+inf for empty arrays'), ('only-arrays-with-property', 'filtered by membership'),
                           ('min-over-real-particles', 'np.min(pa.dt_adapt): attribute access yields real particles only')):
            chk.decide(inst not in badx, 'dt-adapt-override', inst, node=ex, file=INT, func='_get_explicit_dt_adapt', detail_bad=badx.get(inst, ''), detail_ok=text)


def rule_damping_consistent(chk):
    """the start-up damping keeps the factor it applied in self._damping_factor, and _get_undamped_timestep / _get_solver_data divide by that attribute: on every path of
    _damp_timestep the value returned is dt times the factor the attribute holds when the method returns (a path that returns dt itself while the attribute still holds the
    factor of an earlier step makes the "undamped" step grow by 1/factor per iteration); nothing else writes the attribute after construction"""
    from verif_static import paths as PT
    t = M.py(SOL)
    scls = M.find_class(t, 'Solver')
    fn = M.find_func(scls, '_damp_timestep')
    if fn is None:
        raise AnalysisError('Solver._damp_timestep vanished')
    dtp = (M.arg_names(fn) + [None, None])[1]
    ATT = 'self._damping_factor'
    bad, n = None, 0
    for p_ in PT.enumerate_paths(M.docstring_stripped(fn.body)):
        if p_[-1].kind != 'return' or p_[-1].node.value is None:
            bad = bad or 'a path returns no step'
            continue
        n += 1
        factor = None          # None: the attribute still holds what it held on entry
        for e in p_:
            if e.kind == 'stmt' and isinstance(e.node, (ast.Assign, ast.AugAssign)):
                tg = e.node.targets[0] if isinstance(e.node, ast.Assign) else e.node.target
                if compact(tg) == ATT:
                    factor = PT.resolve(e.node.value, e.env) if isinstance(e.node, ast.Assign) else False
        if factor is False:
            bad = bad or 'the factor is updated in place'
            continue

        class Sub(ast.NodeTransformer):
            def visit_Attribute(self, a):
                if compact(a) == ATT and factor is not None:
                    return N.clone(factor)
                return self.generic_visit(a)
        rv = Sub().visit(N.clone(PT.resolve(p_[-1].node.value, p_[-1].env)))
        ftxt = ATT if factor is None else U(factor)
        one = factor is not None and isinstance(factor, ast.Constant) and factor.value == 1
        ok = N.same(rv, '%s*(%s)' % (dtp, ftxt)) or (one and N.same(rv, dtp))
        if not ok:
            bad = bad or 'a path returns `%s` while %s %s' % (U(rv)[:60], ATT, 'keeps the value of an earlier call' if factor is None else 'is set to `%s`' % U(factor)[:60])
    chk.decide(bad is None and n > 0, 'fallback-to-fixed-step', 'damping-factor-applied-is-the-one-kept', node=fn, file=SOL, func='Solver._damp_timestep',
               detail_bad='%s: _get_undamped_timestep() divides the next step by the kept factor, so the "fixed" step of a run without an applicable criterion drifts' % bad,
               detail_ok='%d paths: the step returned is dt times the factor kept for _get_undamped_timestep' % n)
    writers = sorted(set(M.qualname(M.enclosing_func(a)) for a in ast.walk(scls) if isinstance(a, ast.Attribute) and isinstance(a.ctx, ast.Store) and compact(a) == ATT))
    chk.decide(set(writers) <= set(['Solver.__init__', 'Solver._damp_timestep']) and 'Solver._damp_timestep' in writers, 'fallback-to-fixed-step', 'damping-factor-single-writer', node=fn, file=SOL,
               func='Solver', detail_bad='%s is written by %s' % (ATT, writers), detail_ok='written by the constructor and _damp_timestep only')


def rule_fallback(chk, with_clamp=True):
    """Solver._compute_timestep, per feasible path with path-local names substituted: a non-adaptive run uses the undamped fixed step; an adaptive serial run returns what the
    integrator proposes - called with (undamped step, cfl) - or the undamped step when that is None; in parallel None becomes a large number before the global reduction"""
    from verif_static import paths as PT
    t = M.py(SOL)
    scls_raw = M.find_class(t, 'Solver')
    VOC = ('_get_timestep', '_dump_output_if_needed', '_compute_timestep', '_damp_timestep', '_get_solver_data', '_get_undamped_timestep', '_post_stage_callback')
    scls = M.inlined_class(scls_raw, keep=set(VOC) | set(n_ for n_ in M.methods(scls_raw) if not n_.startswith('_')))
    fn = M.find_func(scls, '_compute_timestep')
    CALL = 'self.integrator.compute_time_step(self._get_undamped_timestep(), self.cfl)'
    UND = 'self._get_undamped_timestep()'
    bad = {}
    seen = set()
    pths = PT.enumerate_paths(M.docstring_stripped(fn.body))
    if not any(cal == 'self.integrator.compute_time_step' for p_ in pths for i, c, cal, env in PT.calls_on(p_)):
        raise AnalysisError('Solver._compute_timestep no longer calls integrator.compute_time_step')
    for p_ in pths:
        r_ = p_[-1]
        if r_.kind != 'return' or r_.node.value is None:
            bad.setdefault('none-never-returned', 'a path does not return a step')
            continue
        rv = compact(PT.resolve(r_.node.value, r_.env))
        adaptive = PT.took(p_, True, 'self.adaptive_timestep')
        nonad = PT.took(p_, False, 'self.adaptive_timestep')
        cl = [(i, c, env) for i, c, cal, env in PT.calls_on(p_) if cal == 'self.integrator.compute_time_step']
        if nonad is not None:
            seen.add('nonadaptive')
            if rv != UND or cl:
                bad.setdefault('non-adaptive-uses-fixed-step', 'a non-adaptive path returns %s' % rv)
            continue
        if adaptive is None:
            bad.setdefault('non-adaptive-uses-fixed-step', 'a path does not look at self.adaptive_timestep')
            continue
        if len(cl) != 1 or [compact(PT.resolve(a_, cl[0][2])) for a_ in cl[0][1].args] != [UND, 'self.cfl']:
            bad.setdefault('arguments', 'compute_time_step is not called once with (undamped dt, self.cfl) on an adaptive path')
            continue
        par = PT.took(p_, True, 'self.in_parallel')
        isnone = PT.took(p_, True, CALL.replace(' ', '') + ' is None', CALL + ' is None')
        notnone = PT.took(p_, False, CALL + ' is None')
        if isnone is None and notnone is None:
            bad.setdefault('none-never-returned', 'an adaptive path returns %s without testing the integrator\'s answer for None' % rv)
            continue
        ser = PT.took(p_, False, 'self.in_parallel')
        if par is None and ser is None:
            # a path that never looks at in_parallel is taken by parallel runs as well: there every process must take part in the reduction, whatever its own answer
            bad.setdefault('parallel-run-always-reduces', 'an adaptive path returns %s without looking at self.in_parallel: in a parallel run this process steps with its own value and leaves the '
                           'global reduction (pm.update_time_steps) to the others' % rv)
            continue
        if par is None:
            if isnone is not None:
                seen.add('serial-none')
                if rv != UND:
                    bad.setdefault('none-keeps-fixed-step', 'when no criterion applies the path returns %s, not the undamped fixed step' % rv)
            else:
                seen.add('serial-value')
                if rv != CALL.replace(' ', ''):
                    bad.setdefault('none-never-returned', 'the proposed step is replaced by %s' % rv)
        else:
            seen.add('parallel')
            if not rv.startswith('self.pm.update_time_steps('):
                bad.setdefault('parallel-run-always-reduces', 'the parallel path does not reduce the step over the processes: %s' % rv)
            elif isnone is not None:
                # a process without a constraint of its own contributes a number larger than any step, so that the others decide
                arg = rv[len('self.pm.update_time_steps('):-1]
                try:
                    big = float(arg) >= 1e10
                except ValueError:
                    big = False
                if not big:
                    bad.setdefault('parallel-run-always-reduces', 'a process without a criterion of its own contributes %s to the global minimum (expected a number larger than any step)' % arg)
    for need in ('nonadaptive', 'serial-none', 'serial-value'):
        if need not in seen:
            bad.setdefault({'nonadaptive': 'non-adaptive-uses-fixed-step', 'serial-none': 'none-keeps-fixed-step', 'serial-value': 'none-never-returned'}[need], 'no %s path found' % need)
    for inst, text in (('arguments', '(undamped_dt, self.cfl)'), ('none-keeps-fixed-step', 'dt = undamped_dt'), ('non-adaptive-uses-fixed-step', 'else: dt = undamped_dt'),
                       ('none-never-returned', 'every path tests for None'), ('parallel-run-always-reduces', 'every adaptive path of a parallel run goes through pm.update_time_steps; None contributes 1e20')):
        chk.decide(inst not in bad, 'fallback-to-fixed-step', inst, node=fn, file=SOL, func='_compute_timestep', detail_bad=bad.get(inst, ''), detail_ok=text)
    # the fixed step the run falls back on is the nominal one: a step shortened to land on an output time is saved first (rule shared with C10)
    if with_clamp:
        import importlib.util
        spec10 = importlib.util.spec_from_file_location('c10mod', os.path.join(os.path.dirname(os.path.abspath(__file__)), 'c10.py'))
        c10 = importlib.util.module_from_spec(spec10)
        spec10.loader.exec_module(c10)
        c10.rule_clamp(chk, scls)
    # the first step, too, is derived from criteria that have been evaluated: the initial acceleration precedes the first _get_timestep()
    sv = M.find_func(scls, 'solve')
    g = C.build_cfg(sv)
    ia = [n.id for n in g.nodes if n.ast is not None and isinstance(n.ast, ast.Expr) and (M.call_name(n.ast.value) or '').endswith('integrator.initial_acceleration')]
    gts = [n.id for n in g.nodes if n.ast is not None and isinstance(n.ast, ast.Assign) and M.call_name(n.ast.value) == 'self._get_timestep']
    ok = bool(ia) and bool(gts) and all(any(g.dominates(a_, x) for a_ in ia) for x in gts)
    chk.decide(ok, 'fallback-to-fixed-step', 'criteria-evaluated-before-the-first-step', node=sv, file=SOL, func='Solver.solve',
               detail_bad='a step is asked for (self._get_timestep()) before integrator.initial_acceleration() has evaluated the accelerations: the criterion properties are still '
                          'zero, so the first step falls back to the fixed dt however small the stable step is', detail_ok='initial_acceleration() dominates every _get_timestep()')


def rule_consulted_every_step(chk):
    """the adaptive criteria are consulted for every step the solver proposes"""
    t = M.py(SOL)
    gt = M.find_method(t, 'Solver', '_get_timestep')
    # per path, locals substituted: unless the run has reached its final time, a step is returned only after _compute_timestep() was called
    from verif_static import paths as PT
    ok, nret = True, 0
    for p_ in PT.enumerate_paths(M.docstring_stripped(gt.body)):
        if p_[-1].kind != 'return':
            continue
        nret += 1
        at_end = PT.took(p_, True, 'abs(self.tf-self.t)<self._epsilon', 'abs(self.t-self.tf)<self._epsilon') is not None
        called = any(cal == 'self._compute_timestep' for i, c, cal, env in PT.calls_on(p_))
        if not at_end and not called:
            ok = False
    ok = ok and nret > 0
    chk.decide(ok, 'fallback-to-fixed-step', 'criteria-consulted-for-every-step', node=gt, file=SOL, func='Solver._get_timestep',
               detail_bad='some path proposes the next step without calling _compute_timestep(): a stale step (e.g. the one saved before a '
                          'step shortened to an output time) is reused although the criteria have tightened',
               detail_ok='every continuing path calls _compute_timestep()')
    # after the criteria have been consulted the proposed step may only be shortened: the one adjustment allowed is landing on the final time,
    # and only when the step would otherwise pass tf - epsilon (so the step grows by at most epsilon, never to a multiple of itself)
    D_ = 'self._damp_timestep(self._compute_timestep())'
    bad_s, nst = None, 0
    for p_ in PT.enumerate_paths(M.docstring_stripped(gt.body)):
        if p_[-1].kind != 'return' or p_[-1].node.value is None:
            continue
        if PT.took(p_, True, 'abs(self.tf-self.t)<self._epsilon', 'abs(self.t-self.tf)<self._epsilon') is not None:
            continue
        nst += 1
        rv_ = PT.resolve(p_[-1].node.value, p_[-1].env)
        if compact(rv_) == D_:
            # the stable (damped) step as computed - on the path where it does not pass the final time
            continue
        lands = PT.took(p_, True, 'self.t + %s > self.tf - self._epsilon' % D_, 'self.t + %s >= self.tf - self._epsilon' % D_)
        if not (N.same(rv_, 'self.tf - self.t') and lands is not None):
            bad_s = bad_s or (U(rv_)[:80], [U(PT.resolve(e.node, e.env))[:70] + ' -> %s' % e.truth for e in p_ if e.kind == 'cond'][-2:])
    chk.decide(bad_s is None and nst >= 2, 'fallback-to-fixed-step', 'stable-step-only-shortened', node=gt, file=SOL, func='Solver._get_timestep',
               detail_bad='after the stability criteria were applied a path returns `%s` (tests: %s): only the damped computed step, or `tf - t` when t + dt > tf - epsilon, is allowed '
                          '(any wider window lets the last step exceed the stable step)' % (bad_s or ('', '')),
               detail_ok='dt = tf - t only when t + dt would pass tf - epsilon (%d paths)' % nst)
    # helpers extracted from solve() (`_advance_time_and_timestep()`) are written back in place; the methods the rules name stay calls
    VOCAB_ = ('_get_timestep', '_dump_output_if_needed', '_compute_timestep', '_damp_timestep', '_get_solver_data', '_get_undamped_timestep', '_post_stage_callback')
    scls_ = M.find_class(t, 'Solver')
    sv = M.find_func(M.inlined_class(scls_, keep=set(VOCAB_) | set(n_ for n_ in M.methods(scls_) if not n_.startswith('_'))), 'solve')
    nxt = [a for a in ast.walk(sv) if isinstance(a, ast.Assign) and U(a.targets[0]) == 'self.dt' and M.call_name(a.value) == 'self._get_timestep']
    # the step of the next iteration is derived from the particles as the post-step callbacks leave them (they may refine h, write dt_adapt ...): inside the time loop the
    # callbacks run before `self.dt = self._get_timestep()` - in the order the statements of the (helper-inlined) loop body are executed
    loops_ = [w for w in ast.walk(sv) if isinstance(w, ast.While)]
    order_ = {}

    def number(stmts):
        for st_ in stmts:
            order_[id(st_)] = len(order_)
            for f_ in ('body', 'orelse', 'finalbody'):
                if isinstance(getattr(st_, f_, None), list):
                    number(getattr(st_, f_))
    if loops_:
        number(loops_[0].body)
    in_loop_dt = [a for a in nxt if id(a) in order_]
    def iter_text(l_):
        # what the loop runs over, a name standing for what was assigned to it last before the loop (`callbacks = self.post_step_callbacks` of a helper written back in place)
        it_ = l_.iter
        if isinstance(it_, ast.Name) and loops_:
            prev = [a_ for a_ in ast.walk(loops_[0]) if isinstance(a_, ast.Assign) and len(a_.targets) == 1 and U(a_.targets[0]) == it_.id and id(a_) in order_
                    and order_[id(a_)] < order_.get(id(l_), -1)]
            if prev:
                it_ = sorted(prev, key=lambda a_: order_[id(a_)])[-1].value
        return U(it_)
    posts = [l_ for l_ in ast.walk(loops_[0]) if isinstance(l_, ast.For) and 'post_step_callbacks' in iter_text(l_)] if loops_ else []
    ok_order = bool(in_loop_dt) and bool(posts) and all(order_.get(id(p_), 10 ** 9) < order_[id(a)] for p_ in posts for a in in_loop_dt)
    chk.decide(ok_order, 'fallback-to-fixed-step', 'next-step-after-the-post-step-callbacks', node=in_loop_dt[0] if in_loop_dt else sv, file=SOL, func='Solver.solve',
               detail_bad='inside the time loop `self.dt = self._get_timestep()` does not come after the loop over self.post_step_callbacks: a callback that changes what the criteria '
                          'depend on (refines h, writes dt_adapt / dt_cfl) is not seen by the step that follows it, which then exceeds what the particles allow',
               detail_ok='post-step callbacks, then the next step')
    chk.decide(len(nxt) == 2, 'fallback-to-fixed-step', 'solver-asks-before-every-step', node=sv, file=SOL, func='Solver.solve',
               detail_bad='self.dt = self._get_timestep() sites: %d (one before the loop, one per iteration expected)' % len(nxt), detail_ok='before the loop and in every iteration')


def main(chk):
    chk.explanation = ('Fold identities (running min seeded +inf, running max seeded below admissible values), freshness of '
                       'cached carray minimum/maximum (dominance of update_min_max on the same receiver), criterion-name to '
                       'formula provenance compared with the formulas of the property statement, dt_adapt override, fallback '
                       'to the fixed step in Solver._compute_timestep.')
    t = M.py(INT)
    # (the running maxima of _get_dt_adapt_factors are decided by the model run in rule_provenance: an array without the property, or an empty one, leaves the factor negative)
    n = rule_folds(chk, INT, t, [('Integrator', 'compute_h_minimum'), ('Integrator', '_get_explicit_dt_adapt')])
    chk.floor('folds in integrator.py', n, 2)
    # _my_max identity for empty input
    mm = M.find_method(t, 'Integrator', '_my_max', required=False)
    if mm is not None:
        rets = [U(r.value) for r in ast.walk(mm) if isinstance(r, ast.Return)]
        chk.decide(any(r.startswith('-') for r in rets) and any('max' in r for r in rets), 'fold-identity', 'Integrator._my_max',
                   node=mm, file=INT, func='_my_max', detail_bad='empty input does not map to a value below every admissible maximum',
                   detail_ok='empty -> negative sentinel')
    else:
        # the helper was written back into its only caller: what an empty array contributes is decided by the model run of _get_dt_adapt_factors (rule_provenance)
        chk.note('Integrator._my_max does not exist as a method; the empty-array case is decided by the model run of _get_dt_adapt_factors')
    # (private helpers of the integrator inlined: a refresh that lives in an extracted helper is seen where it is called)
    icls_raw = M.find_class(t, 'Integrator')
    icls_inl = M.inlined_class(icls_raw, keep=set(('_get_dt_adapt_factors', '_get_explicit_dt_adapt', '_my_max')) | set(n_ for n_ in M.methods(icls_raw) if not n_.startswith('_')))
    M.set_parents(icls_inl)
    n = rule_fresh(chk, INT, ast.Module(body=[icls_inl], type_ignores=[]))
    chk.floor('cached min/max reads in integrator.py', n, 1)
    rule_provenance(chk, t)
    chk.floor('model runs of compute_h_minimum', rule_hmin_model(chk, t), 40)
    chk.floor('calls in the dt_adapt history', rule_dt_adapt_model(chk, t), 6)
    rule_fallback(chk)
    rule_damping_consistent(chk)
    rule_consulted_every_step(chk)
    units = [INT, SOL]
    if chk.tier == 'thorough':
        total = 0
        for rel in ('pysph/base/nnps_base.pyx', 'pysph/base/octree.pyx', 'pysph/parallel/parallel_manager.pyx'):
            tr = M.cy(rel)
            total += rule_fresh(chk, rel, tr)
            units.append(rel)
        chk.floor('cached min/max reads in CPU .pyx files', total, 12)
        tr = M.cy('pysph/base/nnps_base.pyx')
        n = rule_folds(chk, 'pysph/base/nnps_base.pyx', tr, [('CPUDomainManager', '_compute_cell_size_for_binning'),
                                                            ('NNPS', '_compute_bounds')])
        chk.floor('folds in nnps_base.pyx', n, 2)
    chk.unit('files', units)
    chk.assume('carray.update_min_max() recomputes minimum/maximum from the current data (cyarray)')
    chk.assume('attribute access pa.<prop> returns the real-particle view (ParticleArray.__getattr__)')


if __name__ == '__main__':
    run_check('C19', main)
