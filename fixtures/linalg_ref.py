"""Definitional (textbook) forms of the small dense helpers of pysph/sph/wc/linalg.py.

Never imported or executed: the C13 check parses this file and compares the
*access signatures* of these definitions with those of the repository's
functions.  They are deliberately written with other counter names and loop
orders than the repository uses, so that equality of signatures is not
equality of text.  Parameter names must equal the repository's (they are the
free symbols of the signature)."""


def identity(a, n):
    # a[p, q] = delta(p, q)
    for q in range(n):
        for p in range(n):
            a[n*p + q] = 1.0 if p == q else 0.0


def dot(a, b, n):
    # sum_t a[t] b[t]
    acc = 0.0
    for t in range(n):
        acc += b[t]*a[t]
    return acc


def mat_mult(a, b, n, result):
    # result[p, q] = sum_t a[p, t] b[t, q]
    for q in range(n):
        for p in range(n):
            acc = 0.0
            for t in range(n):
                acc += a[n*p + t]*b[n*t + q]
            result[n*p + q] = acc


def mat_vec_mult(a, b, n, result):
    # result[p] = sum_t a[p, t] b[t]
    for p in range(n):
        acc = 0.0
        for t in range(n):
            acc += a[n*p + t]*b[t]
        result[p] = acc


def augmented_matrix(A, b, n, na, nmax, result):
    # result is n x (n + na): [A[:n, :n] | b]
    for p in range(n):
        for q in range(na):
            result[(n + na)*p + n + q] = b[na*p + q]
    for p in range(n):
        for q in range(n):
            result[(n + na)*p + q] = A[nmax*p + q]
