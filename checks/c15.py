"""C15 - Riemann solvers are reflection-symmetric; contact solvers are admissible (E3 prover + inductive loop equivariance).

Everything is decided on the source of riemann_solver.py (and the tables in gsph.py / scheme.py that select a solver):

 * loop-free solvers: the function is split into the arms of its case analysis; every arm must have a mirror-image arm
   (value, return code and selecting test) under  l <-> r, u -> -u  - proved by value numbering with definition atoms,
   clearing of denominators and unfolding (verif_static/symb.py).  Arms that pair with a *different* arm additionally rely
   on the arms being exclusive and exhaustive (a numeric fact about wave speeds, stated as an assumption).
 * iterative solvers (van_leer, exact): inductive equivariance of initial guess, loop body, exit tests and post-processing
   (verif_static/loopsym.py) under reflection, under a Galilean shift and under a common scaling of pressures and densities.
 * exact: fd is the derivative of f in the pressure function (both branches, symbolic differentiation), the update is the
   Newton step for f_l + f_r + (u_r - u_l), the convergence test is the relative change against tol, the vacuum test is
   2 (c_l + c_r)/(gamma - 1) <= u_r - u_l and precedes everything else.
 * success implies that the convergence test passed (zero-trip and exhausted loops report failure).
 * the dispatch tables (riemann_solve ids, gsph constants, scheme choices, HELPERS, call arities) agree.
"""
import ast
import os
import re
import sys

sys.path.insert(0, os.path.dirname(os.path.dirname(os.path.abspath(__file__))))
from verif_static.core import run_check, AnalysisError  # noqa
from verif_static import model as M, symb as S, loopsym as L  # noqa
from verif_static.poly import Poly  # noqa

RS = 'pysph/sph/gas_dynamics/riemann_solver.py'
GS = 'pysph/sph/gas_dynamics/gsph.py'
SC = 'pysph/sph/scheme.py'
PARAMS = ['rhol', 'rhor', 'pl', 'pr', 'ul', 'ur', 'gamma', 'niter', 'tol', 'result']
BUDGET = 40


def U(n):
    return M.unparse(n)


def compact(n):
    return U(n).replace(' ', '') if not isinstance(n, str) else n.replace(' ', '')


def norm(name):
    return name.replace('_', '').lower()


def functions():
    """the functions of the solver module; helper functions a maintainer has factored out of a solver (anything that is neither a solver of the dispatch table nor one of the
    two helpers the rules know by name) are inlined again at their call sites - also where the call sits inside an expression (`z = -slope(...)`: the call is lifted into
    a temporary first) - unless a local of the helper would capture a name of the caller"""
    t = M.py(RS)
    funcs = dict((f.name, f) for f in t.body if isinstance(f, ast.FunctionDef))
    rs = funcs.get('riemann_solve')
    kept = set(['SIGN', 'prefun_exact', 'riemann_solve'])
    if rs is not None:
        kept |= set(M.call_name(c) for c in M.calls(rs) if M.call_name(c) in funcs)
    extra = [n_ for n_ in funcs if n_ not in kept]
    if not extra:
        return t, funcs
    from verif_static import norm as N
    # the locals (and, where no call names them by keyword, the parameters) of a factored-out helper are renamed apart first: `pm = guess(...)` with a helper that computes
    # its own `pm` must not capture the caller's variables when written back in place
    t = N.clone(t)
    M.set_parents(t)
    funcs = dict((f.name, f) for f in t.body if isinstance(f, ast.FunctionDef))
    for hn in extra:
        h = funcs[hn]
        params = [a.arg for a in h.args.args]
        by_kw = any(c.keywords for c in M.calls(t) if M.call_name(c) == hn)
        ren = set(x.id for x in ast.walk(h) if isinstance(x, ast.Name) and isinstance(x.ctx, ast.Store)) | (set() if by_kw else set(params))
        for x in ast.walk(h):
            if isinstance(x, ast.Name) and x.id in ren:
                x.id = x.id + '__' + hn
            elif isinstance(x, ast.arg) and x.arg in ren:
                x.arg = x.arg + '__' + hn
    out = {}
    for name, fn in funcs.items():
        if name in extra or not any((M.call_name(c) or '') in extra for c in M.calls(fn)):
            out[name] = fn
            continue
        own = set(x.id for x in ast.walk(fn) if isinstance(x, ast.Name)) | set(a.arg for a in fn.args.args)
        safe = True
        for c in M.calls(fn):
            h = funcs.get(M.call_name(c) or '')
            if h is None or h.name not in extra:
                continue
            params = [a.arg for a in h.args.args]
            bound_same = set(p_ for p_, a_ in zip(params, c.args) if isinstance(a_, ast.Name) and a_.id == p_)
            hl = (set(x.id for x in ast.walk(h) if isinstance(x, ast.Name) and isinstance(x.ctx, ast.Store)) | set(params)) - bound_same
            if hl & own:
                safe = False
        if not safe:
            out[name] = fn
            continue
        new = N.clone(fn)
        cnt = [0]

        def lift(stmts):
            res = []
            for st in stmts:
                for fld in ('body', 'orelse', 'finalbody'):
                    if isinstance(getattr(st, fld, None), list) and not isinstance(st, (ast.FunctionDef, ast.ClassDef)):
                        setattr(st, fld, lift(getattr(st, fld)))
                if isinstance(st, (ast.Assign, ast.AugAssign, ast.Return, ast.Expr)) and st.value is not None:
                    top = st.value
                    for c in [c for c in ast.walk(st.value) if isinstance(c, ast.Call) and (M.call_name(c) or '') in extra and c is not top]:
                        cnt[0] += 1
                        tmp = '_lifted%d' % cnt[0]
                        res.append(ast.copy_location(ast.Assign(targets=[ast.Name(id=tmp, ctx=ast.Store())], value=c), st))

                        class R(ast.NodeTransformer):
                            def visit_Call(self, n, c=c, tmp=tmp):
                                if n is c:
                                    return ast.copy_location(ast.Name(id=tmp, ctx=ast.Load()), n)
                                return self.generic_visit(n)
                        st.value = R().visit(st.value)
                res.append(st)
            return res
        new.body = lift(new.body)
        ast.fix_missing_locations(new)
        out[name] = M.inlined_function(t, new, keep=kept)
    return t, out


def stripped(fn):
    return ast.FunctionDef(name=fn.name, args=fn.args, body=M.docstring_stripped(fn.body), decorator_list=[], lineno=fn.lineno)


# ---------------------------------------------------------------------------------------------------------------------
def dispatch_table(chk, funcs):
    """method id -> solver function, from the if-chain of riemann_solve"""
    rs = funcs.get('riemann_solve')
    if rs is None:
        raise AnalysisError('riemann_solve vanished from %s' % RS)
    table = {}
    # per path of the dispatcher: the path that returns <solver>(...) was taken because `method == <id>` held for exactly one id (an if / elif chain, independent ifs with
    # early returns, a chain ending in else - all the same)
    from verif_static import paths as PT
    pths = PT.enumerate_paths(M.docstring_stripped(rs.body))
    narm = 0
    for p_ in pths:
        r_ = p_[-1]
        if r_.kind != 'return' or not isinstance(getattr(r_.node, 'value', None), ast.Call):
            continue
        ret = r_.node
        ids = [t_.comparators[0].value for t_, tr in PT.path_facts(p_) if tr and isinstance(t_, ast.Compare) and len(t_.ops) == 1 and isinstance(t_.ops[0], ast.Eq)
               and compact(t_.left) == 'method' and isinstance(t_.comparators[0], ast.Constant)]
        narm += 1
        if len(ids) != 1:
            chk.violated('dispatch-table', 'riemann_solve:arm@%d' % ret.lineno, node=ret, file=RS, func='riemann_solve',
                         detail='a solver is returned on a path that was not selected by `method == <id>` for one id (ids on the path: %s)' % ids)
            continue
        mid = ids[0]
        callee = M.call_name(ret.value)
        args = [compact(PT.resolve(a, r_.env)) for a in ret.value.args]
        inst = 'riemann_solve:%s->%s' % (mid, callee)
        good = callee in funcs and args == PARAMS and not ret.value.keywords and mid not in table
        chk.decide(good, 'dispatch-table', inst, node=ret, file=RS, func='riemann_solve',
                   detail_bad='method %s must return %s(%s) for a solver defined in this module, each id once; got arguments (%s)' % (mid, callee, ', '.join(PARAMS), ', '.join(args)),
                   detail_ok='returns %s(%s)' % (callee, ', '.join(PARAMS)))
        table[mid] = callee
    if not narm:
        raise AnalysisError('riemann_solve returns no solver call')
    chk.decide(sorted(table) == list(range(len(table))) and len(set(table.values())) == len(table), 'dispatch-table', 'riemann_solve:ids-contiguous-and-distinct', node=rs, file=RS,
               func='riemann_solve', detail_bad='method ids %s / solvers %s are not a bijection onto 0..n-1' % (sorted(table), sorted(table.values())), detail_ok='ids 0..%d, %d distinct solvers' % (len(table) - 1, len(table)))
    want = [a.arg for a in rs.args.args]
    chk.decide(want == ['method'] + PARAMS, 'dispatch-table', 'riemann_solve:signature', node=rs, file=RS, func='riemann_solve',
               detail_bad='signature is (%s)' % ', '.join(want), detail_ok='(method, %s)' % ', '.join(PARAMS))
    for mid, name in sorted(table.items()):
        f = funcs.get(name)
        if f is None:
            continue
        got = [a.arg for a in f.args.args]
        chk.decide(got == PARAMS, 'dispatch-table', 'signature:%s' % name, node=f, file=RS, func=name,
                   detail_bad='solver parameters are (%s): the dispatcher passes (%s) positionally, so the states would be permuted' % (', '.join(got), ', '.join(PARAMS)),
                   detail_ok='(%s)' % ', '.join(PARAMS))
    return table


def rule_tables(chk, funcs, table):
    g = M.py(GS)
    consts = {}
    for s in g.body:
        if isinstance(s, ast.Assign) and isinstance(s.targets[0], ast.Name) and isinstance(s.value, ast.Constant) and isinstance(s.value.value, int) \
                and norm(s.targets[0].id) in set(norm(v) for v in table.values()):
            consts[s.targets[0].id] = (s.value.value, s)
    byname = dict((norm(v), k) for k, v in table.items())
    for nm, (val, node) in sorted(consts.items()):
        chk.decide(byname.get(norm(nm)) == val, 'dispatch-table', 'gsph-constant:%s' % nm, node=node, file=GS, func='<module>',
                   detail_bad='%s = %d but riemann_solve runs %s for method %d (and %s for %s)' % (nm, val, table.get(val), val, byname.get(norm(nm)), nm),
                   detail_ok='%s = %d selects %s' % (nm, val, table.get(val)))
    chk.floor('gsph solver constants', len(consts), 11)
    # scheme: --rsolver choices
    sc = M.py(SC)
    n = 0
    for d in ast.walk(sc):
        if isinstance(d, ast.Assign) and compact(d.targets[0]) == 'self.rsolver_choices' and isinstance(d.value, ast.Dict):
            for k, v in zip(d.value.keys, d.value.values):
                n += 1
                key, val = k.value, v.value
                chk.decide(table.get(val) == key, 'dispatch-table', 'scheme-choice:%s' % key, node=k, file=SC, func='GSPHScheme.__init__',
                           detail_bad="--rsolver %s maps to method %s which runs %s" % (key, val, table.get(val)), detail_ok='%s -> %d' % (key, val))
    chk.floor('scheme rsolver choices', n, 11)
    # literal method ids at call sites of riemann_solve (hybrid blending uses HLLSY)
    for c in M.calls(g):
        if M.call_name(c) == 'riemann_solve':
            fn = M.enclosing_func(c)
            a0 = c.args[0]
            rest = [compact(a) for a in c.args[1:]]
            inst = 'call@%s' % M.qualname(fn)
            if isinstance(a0, ast.Constant):
                inst += ':literal-%s' % a0.value
                hyb = M.enclosing(c, ast.If)
                chk.decide(table.get(a0.value) == 'hllsy' and hyb is not None and 'hybrid' in compact(hyb.test), 'dispatch-table', inst, node=c, file=GS, func=M.qualname(fn),
                           detail_bad='the hybrid blend is documented to use the HLLSY state, method %s is %s' % (a0.value, table.get(a0.value)), detail_ok='hybrid blend uses hllsy')
            # six different state values, then the solver parameters of the equation, then a two-element work array declared in this function (whatever the locals are called)
            shape = len(rest) == 10 and rest[6:9] == ['self.gamma', 'self.niter', 'self.tol'] and isinstance(c.args[10], ast.Name)
            decl = shape and [a for a in ast.walk(fn) if isinstance(a, ast.Assign) and compact(a.targets[0]) == rest[9]]
            arr = shape and len(decl) == 1 and isinstance(decl[0].value, ast.Call) and M.call_name(decl[0].value) == 'declare' and \
                [getattr(x, 'value', None) for x in decl[0].value.args] == ['matrix(2)']
            pairs = shape and len(set(rest[:6])) == 6
            chk.decide(bool(shape and pairs and arr), 'dispatch-table', inst + ':arguments', node=c, file=GS, func=M.qualname(fn),
                       detail_bad='arguments (%s) are not six different state values (left, right density, pressure, velocity) followed by gamma, niter, tol and a matrix(2) result array of this function' % ', '.join(rest),
                       detail_ok='(%s)' % ', '.join(rest))
    # the left and the right state handed to the solver are reconstructed the same way from the two particles: one renaming of the locals (j-side quantities <-> i-side
    # quantities, whatever they are called; `+ slope` <-> `- slope`) turns the left density, pressure and velocity into the right ones - found on the first pair, it must fit
    # the other two.  A right velocity extrapolated with the left particle's length is not the mirror image of the left one: the problem solved for (i <- j) is then not the
    # reflection of the one solved for (j <- i)
    for c in M.calls(g):
        if M.call_name(c) != 'riemann_solve' or isinstance(c.args[0], ast.Constant) or len(c.args) < 7:
            continue
        fn = M.enclosing_func(c)
        if fn is None or not all(isinstance(a_, ast.Name) for a_ in c.args[1:7]):
            continue
        from verif_static import norm as N_
        ld = N_.local_defs([fn])

        def first_def(nm):
            cands = [a_ for a_ in ast.walk(fn) if isinstance(a_, ast.Assign) and len(a_.targets) == 1 and compact(a_.targets[0]) == nm and a_.lineno < c.lineno]
            return N_.inline(sorted(cands, key=lambda a_: a_.lineno)[0].value, dict((k_, v_) for k_, v_ in ld.items() if k_ != nm)) if cands else None

        def unify(a, b, mp):
            # leaves: names / subscripts / attributes, compared as texts under a one-to-one renaming; + and - may be exchanged (the slope term changes sign)
            leaf = (ast.Name, ast.Subscript, ast.Attribute)
            if isinstance(a, leaf) and isinstance(b, leaf):
                ta, tb = compact(a), compact(b)
                if mp.get(ta, tb) != tb or mp.get(tb, ta) != ta:
                    return False
                mp[ta], mp[tb] = tb, ta
                return True
            if type(a) is not type(b):
                return False
            if isinstance(a, ast.Constant):
                return a.value == b.value
            if isinstance(a, ast.BinOp):
                ops_ok = type(a.op) is type(b.op) or (isinstance(a.op, (ast.Add, ast.Sub)) and isinstance(b.op, (ast.Add, ast.Sub)))
                return ops_ok and unify(a.left, b.left, mp) and unify(a.right, b.right, mp)
            if isinstance(a, ast.UnaryOp):
                return type(a.op) is type(b.op) and unify(a.operand, b.operand, mp)
            if isinstance(a, ast.Call):
                return compact(a.func) == compact(b.func) and len(a.args) == len(b.args) and all(unify(x, y, mp) for x, y in zip(a.args, b.args))
            return compact(a) == compact(b)
        names6 = [a_.id for a_ in c.args[1:7]]
        defs6 = [first_def(nm) for nm in names6]
        if any(d_ is None for d_ in defs6):
            continue
        mp, okm, whym = {}, True, ''
        for k_ in (0, 2, 4):
            trial = dict(mp)
            if not unify(defs6[k_], defs6[k_ + 1], trial):
                okm = False
                whym = '`%s = %s` and `%s = %s` are not each other under the renaming %s that relates the pairs before them' % (
                    names6[k_], U(defs6[k_])[:70], names6[k_ + 1], U(defs6[k_ + 1])[:70], dict((a_, b_) for a_, b_ in sorted(mp.items()) if a_ < b_))
                break
            mp = trial
        chk.decide(okm, 'dispatch-table', 'call@%s:left-right-mirror' % M.qualname(fn), node=c, file=GS, func=M.qualname(fn),
                   detail_bad='%s: the left and right states are not reconstructed as mirror images, so the pair (i, j) and the pair (j, i) solve different Riemann problems and the pair '
                              'force is not equal and opposite' % whym,
                   detail_ok='one renaming %s relates (left, right) density, pressure and velocity' % dict((a_, b_) for a_, b_ in sorted(mp.items()) if a_ < b_ and a_ != b_))
    # HELPERS closes over everything the dispatcher can reach
    t, _ = functions()
    helpers = None
    for s in t.body:
        if isinstance(s, ast.Assign) and compact(s.targets[0]) == 'HELPERS':
            helpers = [compact(e) for e in s.value.elts]
            hnode = s
    if helpers is None:
        raise AnalysisError('HELPERS vanished')
    reach, todo = set(), ['riemann_solve']
    while todo:
        f = todo.pop()
        if f in reach or f not in funcs:
            continue
        reach.add(f)
        for c in M.calls(funcs[f]):
            nm = M.call_name(c)
            if nm in funcs and nm != 'printf':
                todo.append(nm)
    missing = sorted(reach - set(helpers))
    chk.decide(not missing, 'dispatch-table', 'HELPERS-closure', node=hnode, file=RS, func='<module>',
               detail_bad='reachable from riemann_solve but not transpiled with it: %s' % missing, detail_ok='%d functions reachable, all listed' % len(reach))
    # arity of every call to a function of this module
    n = 0
    for rel, tree in ((RS, t), (GS, g)):
        for c in M.calls(tree):
            nm = M.call_name(c)
            if nm in funcs and not any(isinstance(a, ast.Starred) for a in c.args):
                f = funcs[nm]
                total = len(f.args.args)
                required = total - len(f.args.defaults)
                got = len(c.args) + len(c.keywords)
                n += 1
                okk = (required <= got <= total) or f.args.vararg is not None and got >= required
                fn = M.enclosing_func(c)
                chk.decide(okk, 'call-arity', '%s@%s:%s' % (nm, M.qualname(fn) if fn is not None else '<module>', compact(c)[:40]), node=c, file=rel, func=M.qualname(fn) if fn is not None else '<module>',
                           detail_bad='%s takes %d..%d arguments, called with %d: in pure Python this path raises TypeError instead of reporting failure' % (nm, required, total, got),
                           detail_ok='%d arguments' % got)
    chk.floor('calls of solver-module functions', n, 16)


# ---------------------------------------------------------------------------------------------------------------------
def reflection(ctx):
    def sigma(name):
        m = {'rhol': 'rhor', 'rhor': 'rhol', 'pl': 'pr', 'pr': 'pl'}
        if name in m:
            return ctx.var(m[name])
        if name == 'ul':
            return -ctx.var('ur')
        if name == 'ur':
            return -ctx.var('ul')
        return None
    return sigma


def with_equal_sides(fn):
    """a copy of the solver in which the right state is the left one from the first statement on (rhor = rhol; pr = pl; ur = ul prepended): every test is then evaluated
    on the tie it meets when both sides are equal - a renaming applied after a general evaluation would settle `a <= b` at a == b by the prover's convention for indicators,
    which ignores ties"""
    params = [a.arg for a in fn.args.args]
    pre = [ast.parse('%s = %s' % (r_, l_)).body[0] for l_, r_ in (('rhol', 'rhor'), ('pl', 'pr'), ('ul', 'ur')) if l_ in params and r_ in params]
    new = ast.FunctionDef(name=fn.name, args=fn.args, body=pre + list(fn.body), decorator_list=[], lineno=fn.lineno)
    return ast.fix_missing_locations(new)


def equal_sides(ctx):
    def sigma(name):
        m = {'rhor': 'rhol', 'pr': 'pl', 'ur': 'ul'}
        if name in m:
            return ctx.var(m[name])
        return None
    return sigma


def arm_values(ev):
    def get(k):
        if ev.returns:
            return ev.result_of_returns(lambda val, env: env.get(k, Poly()))
        return ev.env.get(k, Poly())
    rv = ev.result_of_returns(lambda val, env: val) if ev.returns else None
    return get('result[0]'), get('result[1]'), rv


def describe(path, ev):
    if not ev.decisions:
        return 'whole function'
    s, c, taken = ev.decisions[-1]
    return '%s `%s` (line %d)' % ('arm' if taken else 'else-arm after', compact(s.test)[:60], s.lineno)


# solvers whose case analysis cannot be proved symmetric as one identity: the arms are proved mirror images of each other and the exclusiveness / exhaustiveness
# of the cases is a stated assumption (one line of reason each)
CASE_SPLIT_ASSUMED = {
    'ducowicz': 'cases C and D are the two roots of one quadratic: that exactly one of them satisfies its sign conditions when A and B do not is a numeric fact; '
                'the else-arm D carries no test of its own',
}
POSITIVE_INPUTS = ['rhol', 'rhor', 'pl', 'pr', 'gamma']


def fmt_witness(w):
    pt, rel = w
    return ', '.join('%s=%.4g' % (k, v) for k, v in sorted(pt.items()) if k in PARAMS) + ' (relative residual %.2g)' % rel


def rule_loop_free(chk, funcs, names):
    n = 0
    for nm in names:
        fn = stripped(funcs[nm])
        ctx = S.Ctx(max_terms=40000, seconds=BUDGET)
        ctx.pos_atoms.update(POSITIVE_INPUTS)
        sig = reflection(ctx)
        try:
            # (1) one identity for the whole function: sum over return sites of [path condition] * value, indicators with an evident sign folded
            ev = S.Evaluator(ctx, fn, helpers={'SIGN': funcs['SIGN']}, define_terms=1)
            ev.run()
            whole = True
            bad = None
            for k, sign in (('result[0]', 1), ('result[1]', -1), ('return code', 1)):
                v = ev.result_of_returns((lambda val, env: val) if k == 'return code' else (lambda val, env, k=k: env.get(k, Poly())))
                res = ctx.simplify(ctx.rename(v, sig) - v * Poly.const(sign))
                # a sample point that separates the two orientations settles it (and is reported); otherwise the identity has to be proved
                w = None if res.is_zero() or ctx.maybe_equal(res, Poly()) else ctx.witness(res, v + Poly.const(1))
                if w is not None:
                    whole = False
                    bad = bad if (bad and bad[2] is not None) else (k, res, w)
                    continue
                res0 = res
                ok, res = ctx.prove_zero(res)
                if not ok:
                    whole = False
                    # the fingerprint points did not separate the sides and the proof failed: search the sample points with the residual as first written
                    # (the proof attempt may have multiplied it by denominators, which distorts the scale the search compares against)
                    w = ctx.witness(res0, v + Poly.const(1), tries=1200) or ctx.witness(res, v + Poly.const(1))
                    bad = bad if (bad and (bad[2] is not None or w is None)) else (k, res, w)
            n += 1
            if whole:
                chk.holds('reflection-symmetry', nm, node=funcs[nm], file=RS, func=nm,
                          detail='f(swap, -u) == (pstar, -ustar, rc) as one algebraic identity over all branches (%d return sites, indicators of evident sign folded)' % len(ev.returns))
            elif bad[2] is not None:
                chk.violated('reflection-symmetry', nm, node=funcs[nm], file=RS, func=nm,
                             detail='%s of the mirrored problem differs: residual with %d terms does not vanish; e.g. at %s the two orientations disagree'
                                    % (bad[0], len(bad[1].t), fmt_witness(bad[2])))
            elif nm not in CASE_SPLIT_ASSUMED:
                chk.undecided('reflection-symmetry', nm, node=funcs[nm], file=RS, func=nm,
                              detail='the whole-function identity was not proved (residual %d terms) and no admissible sample point separates the two orientations' % len(bad[1].t))
            if whole or nm not in CASE_SPLIT_ASSUMED or bad[2] is not None:
                arms = None
            else:
                # (2) arm by arm, exclusiveness of the cases assumed
                arms = S.arms(lambda: S.Evaluator(ctx, fn, helpers={'SIGN': funcs['SIGN']}, define_terms=1), fn)
                chk.assume('%s: %s' % (nm, CASE_SPLIT_ASSUMED[nm]))
                vals = [arm_values(e2) for e2 in arms]
                for i, (p0, u0, rv) in enumerate(vals):
                    sp, su = ctx.rename(p0, sig), ctx.rename(u0, sig)
                    partner, maybe = None, []
                    for j, (p2, u2, rv2) in enumerate(vals):
                        if rv != rv2 or not (ctx.maybe_equal(sp, p2) and ctx.maybe_equal(su, -u2)):
                            continue
                        maybe.append(j)
                        if ctx.prove_zero(sp - p2)[0] and ctx.prove_zero(su + u2)[0]:
                            partner = j
                            break
                    inst = '%s:arm%d' % (nm, i)
                    node = arms[i].decisions[-1][0] if arms[i].decisions else funcs[nm]
                    n += 1
                    if partner is not None:
                        ti = [c for s_, c, taken in arms[i].decisions if taken]
                        tj = [c for s_, c, taken in arms[partner].decisions if taken]
                        tests_ok = True
                        if ti and tj and len(ti) == len(tj):
                            tests_ok = all(any(ctx.prove_zero(ctx.rename(c, sig) - d)[0] for d in tj) for c in ti)
                        chk.decide(tests_ok, 'reflection-symmetry', inst, node=node, file=RS, func=nm,
                                   detail_bad='%s computes the mirror image of %s, but the tests selecting them are not mirror images' % (describe(None, arms[i]), describe(None, arms[partner])),
                                   detail_ok='mirror image of arm %d (%s): pstar equal, ustar negated, same return code, selecting tests mirrored' % (partner, describe(None, arms[partner])))
                    elif maybe:
                        chk.undecided('reflection-symmetry', inst, node=node, file=RS, func=nm, detail='values agree with arm(s) %s at sample points but no algebraic proof was found' % maybe)
                    else:
                        chk.violated('reflection-symmetry', inst, node=node, file=RS, func=nm,
                                     detail='no arm of %s computes the mirror image of %s [normal forms differ after unfolding every temporary and clearing denominators]' % (nm, describe(None, arms[i])))
            # equal sides -> common state
            eq = equal_sides(ctx)
            if nm in COMMON_STATE_PROVED:
                okc = True
                ev_eq = S.Evaluator(ctx, with_equal_sides(fn), helpers={'SIGN': funcs['SIGN']}, define_terms=1)          # ties decided as the code decides them
                ev_eq.run()
                for k, want in (('result[0]', 'pl'), ('result[1]', 'ul')):
                    v = ev_eq.result_of_returns(lambda val, env, k=k: env.get(k, Poly()))
                    okc = okc and ctx.prove_zero(ctx.rename(v, eq) - ctx.var(want))[0]
                rc = ev_eq.result_of_returns(lambda val, env: val)
                okc = okc and ctx.prove_zero(ctx.rename(rc, eq))[0]
                chk.decide(okc, 'common-state', nm, node=funcs[nm], file=RS, func=nm,
                           detail_bad='with identical left and right states the solver no longer returns (p, u) of that state with return code 0',
                           detail_ok='rhor=rhol, pr=pl, ur=ul gives (pl, ul), return code 0, over all branches')
        except (S.Unsupported, S.Budget) as e:
            chk.undecided('reflection-symmetry', nm, node=funcs[nm], file=RS, func=nm, detail='prover gave up: %s' % e)
    chk.floor('loop-free solvers / arms examined', n, 13)


# solvers for which "equal sides give the common state" is provable by the algebra at hand today (ducowicz needs sqrt(x^2) = |x| and sign facts the prover
# does not have); frozen after reading
COMMON_STATE_PROVED = set(['non_diffusive', 'hllc', 'hlle', 'roe', 'llxf', 'hllc_ball', 'hll_ball', 'hllsy'])


# ---------------------------------------------------------------------------------------------------------------------
def prefun_hook(funcs):
    pf = funcs['prefun_exact']

    def hook(ev, call):
        out = U(call.args[-1])
        sub = S.Evaluator(ev.ctx, pf, helpers=ev.helpers, define_terms=ev.define_terms)
        names = [a.arg for a in pf.args.args]
        for nme, a in zip(names[:-1], call.args[:-1]):
            sub.env[nme] = ev.ev(a)
        sub.block(M.docstring_stripped(pf.body))
        for k in (0, 1):
            ev.assign(ast.parse('%s[%d]' % (out, k)).body[0].value, sub.env['result[%d]' % k])
    return hook


def mirror_name(n):
    m = re.match(r'^(.*?)(l|r)(\[\d\])?$', n)
    if m:
        return m.group(1) + ('r' if m.group(2) == 'l' else 'l') + (m.group(3) or '')
    return n


TRANSFORMS = ('reflection', 'galilean-shift', 'scaling')


def transform(ctx, kind):
    """(renaming of the inputs, candidate images, required images of the results, alias forms, description)"""
    if kind == 'reflection':
        def cands(var, names):
            out = []
            pref = [mirror_name(var), var] + [n for n in names if n not in (var, mirror_name(var))]
            for w in pref:
                for s in (1, -1):
                    out.append(('%s%s' % ('+' if s > 0 else '-', w), (lambda lk, w=w, s=s: lk(w) * Poly.const(s))))
            return out
        return (reflection(ctx), cands, {'result[0]': lambda lk: lk('result[0]'), 'result[1]': lambda lk: -lk('result[1]')}, None,
                'swapping the sides and negating the velocities')
    if kind == 'galilean-shift':
        c = ctx.var('c')

        def shift(name):
            if name in ('ul', 'ur'):
                return ctx.var(name) + c
            return None

        def cands(var, names):
            return [('+' + var, lambda lk: lk(var)), (var + '+c', lambda lk: lk(var) + c), (var + '-c', lambda lk: lk(var) - c)]
        return (shift, cands, {'result[0]': lambda lk: lk('result[0]'), 'result[1]': lambda lk: lk('result[1]') + c},
                lambda ob: (ob, ob + c, ob - c), 'adding a constant c to both velocities')
    if kind == 'scaling':
        ctx.positive.add('s')
        s = ctx.var('s')
        exps = (0, 2, -2, 4, -4, 6, -6)

        def scale(name):
            if name in ('rhol', 'rhor', 'pl', 'pr'):
                return ctx.var(name) * s * s
            return None

        def cands(var, names):
            return [('%s*k^%s' % (var, e // 2), (lambda lk, e=e: ctx.simplify(lk(var) * ctx.pos_mono({'s': e})))) for e in exps]
        return (scale, cands, {'result[0]': lambda lk: lk('result[0]') * s * s, 'result[1]': lambda lk: lk('result[1]')},
                lambda ob: [ctx.simplify(ob * ctx.pos_mono({'s': e}) * Poly.const(sg)) for e in exps for sg in (1, -1)],
                'multiplying both pressures and both densities by k = s^2 > 0')
    raise ValueError(kind)


def rule_iterative(chk, funcs, names):
    n = 0
    analyses = {}
    for nm in names:
        fn = stripped(funcs[nm])
        helpers = {'SIGN': funcs['SIGN'], 'prefun_exact': prefun_hook(funcs)}
        for kind in TRANSFORMS:
            ctx = S.Ctx(max_terms=40000, seconds=BUDGET)
            inst = '%s:%s' % (nm, kind)
            try:
                sig, cands, expect, forms, text = transform(ctx, kind)
                an = L.Analysis(ctx, fn, helpers)
                analyses[(nm, kind)] = an
                ctx.alias_forms = forms
                n += 1
                proved = L.prove_equivariance(an, sig, cands, expect, text)
                rule = 'reflection-symmetry' if kind == 'reflection' else 'frame-and-scale-invariance'
                chk.holds(rule, inst, node=an.loop, file=RS, func=nm,
                          detail='inductive proof over the iteration: %d loop variables with proved images (%s); exit tests invariant; results transform as required'
                                 % (len([p for p in proved if p[0] == 'step']), ', '.join('%s->%s' % (v, img) for st, v, img in proved if st == 'step')[:400]))
            except L.Failure as e:
                rule = 'reflection-symmetry' if kind == 'reflection' else 'frame-and-scale-invariance'
                chk.violated(rule, inst, node=e.node, file=RS, func=nm, detail='%s [%s stage of the induction]' % (e.detail, e.stage))
            except (S.Unsupported, S.Budget) as e:
                chk.undecided('reflection-symmetry' if kind == 'reflection' else 'frame-and-scale-invariance', inst, node=funcs[nm], file=RS, func=nm, detail='prover gave up: %s' % e)
        chk.assume('%s: floors below 1e-15 (e.g. smallp = 1e-25) are rounded to 0 in the model, i.e. the positivity clamp is taken to be inactive for the scaling clause' % nm)
    chk.floor('equivariance proofs of iterative solvers', n, 6)
    return analyses


def rule_common_state_iterative(chk, funcs, names):
    """with equal sides the initial guess is the common pressure and one iteration maps it to itself"""
    for nm in names:
        fn = with_equal_sides(stripped(funcs[nm]))          # the right state is the left one from the start: ties are decided as the code decides them
        ctx = S.Ctx(max_terms=40000, seconds=BUDGET)
        ctx.positive.update(['pl', 'rhol', 'gamma'])
        helpers = {'SIGN': funcs['SIGN'], 'prefun_exact': prefun_hook(funcs)}
        try:
            an = L.Analysis(ctx, fn, helpers)
            eq = equal_sides(ctx)
            state = sorted(v for v in an.body_reads if v in an.env0)
            init = dict((v, ctx.rename(an.env0[v], eq)) for v in state)

            def fix(name):
                if name.startswith('~') and name[1:] in init:
                    return init[name[1:]]
                return eq(name)
            # iterate: the state after one iteration equals the initial state for every loop-carried variable the body reads
            bad = []
            def counter(v):
                # a variable that the loop only ever advances by a constant (`v += 1`, `v = v + 1`), whatever it is called
                st_ = [a for a in ast.walk(an.loop) if isinstance(a, (ast.Assign, ast.AugAssign)) and compact(a.targets[0] if isinstance(a, ast.Assign) else a.target) == v]
                def step(a):
                    if isinstance(a, ast.AugAssign):
                        return isinstance(a.op, (ast.Add, ast.Sub)) and isinstance(a.value, ast.Constant)
                    b = a.value
                    return isinstance(b, ast.BinOp) and isinstance(b.op, (ast.Add, ast.Sub)) and compact(b.left) == v and isinstance(b.right, ast.Constant)
                return bool(st_) and all(step(a) for a in st_)
            carried = [v for v in state if v in an.outs and not (isinstance(an.loop, ast.For) and v == an.loop.target.id) and not counter(v)]
            for v in carried:
                after = ctx.rename(an.outs[v], fix)
                if not ctx.prove_zero(after - init[v])[0]:
                    bad.append(v)
            pkey = [v for v in carried if ctx.prove_zero(init[v] - ctx.var('pl'))[0]]
            # ... and the same once more with the first pass written out from the actual initial state (equal sides prepended, the loop header and its break dropped): the
            # tests of that pass then meet their ties as constants and are decided exactly as the code decides them (`p <= pk` at p == pk takes the `<=` branch) - the
            # generic analysis above settles a tie on a loop-carried symbol by the prover's convention for indicators
            try:
                pre_, loop_, post_ = L.split(fn)
                body1 = [s_ for s_ in loop_.body if not (isinstance(s_, ast.If) and any(isinstance(x, (ast.Break, ast.Continue)) for x in ast.walk(s_)))]
                head1 = [ast.parse('%s = 0' % loop_.target.id).body[0]] if isinstance(loop_, ast.For) and isinstance(loop_.target, ast.Name) else []
                ctx1 = S.Ctx(max_terms=40000, seconds=BUDGET)
                ctx1.positive.update(['pl', 'rhol', 'gamma'])
                ev0 = S.Evaluator(ctx1, ast.fix_missing_locations(ast.FunctionDef(name=nm, args=fn.args, body=list(pre_), decorator_list=[], lineno=1)), helpers=helpers)
                ev0.run()
                ev1 = S.Evaluator(ctx1, ast.fix_missing_locations(ast.FunctionDef(name=nm, args=fn.args, body=list(pre_) + head1 + body1, decorator_list=[], lineno=1)), helpers=helpers)
                ev1.run()
                for v in pkey:
                    if v in ev0.env and v in ev1.env and not ctx1.prove_zero(ev1.env[v] - ev0.env[v])[0]:
                        bad.append(v + ' (first pass written out)')
            except (S.Unsupported, S.Budget):
                pass            # the generic analysis stands
            chk.decide(bool(pkey) and not bad, 'common-state', nm + ':fixed-point', node=an.loop, file=RS, func=nm,
                       detail_bad='with identical sides the iteration does not start at / stay at the common pressure (variables that move: %s; pressure iterate found: %s)' % (bad, pkey),
                       detail_ok='initial guess of %s is pl and one iteration maps it to itself' % pkey)
            # the post block returns (p, u) from that state
            outs1 = dict((v, ctx.rename(p, fix)) for v, p in an.outs.items())

            def fix_post(name):
                if name.startswith('~'):
                    v = name[1:]
                    if v in outs1:
                        return outs1[v]
                    if v in init:
                        return init[v]
                    return None
                return eq(name)
            good = False
            for live, val, env in an.post.returns:
                if isinstance(val, Poly) and val.is_zero() and 'result[0]' in env:
                    okp = ctx.prove_zero(ctx.rename(env['result[0]'], fix_post) - ctx.var('pl'))[0]
                    oku = ctx.prove_zero(ctx.rename(env['result[1]'], fix_post) - ctx.var('ul'))[0]
                    good = okp and oku
            chk.decide(good, 'common-state', nm + ':result', node=an.loop, file=RS, func=nm,
                       detail_bad='from the fixed point the solver does not return (pl, ul)', detail_ok='returns (pl, ul)')
        except (S.Unsupported, S.Budget) as e:
            chk.undecided('common-state', nm, node=funcs[nm], file=RS, func=nm, detail='prover gave up: %s' % e)


# ---------------------------------------------------------------------------------------------------------------------
def rule_newton(chk, funcs):
    """exact: fd = df/dp on both branches, the update is the Newton step, the stopping test is the relative change"""
    nm = 'exact'
    fn = stripped(funcs[nm])
    ctx = S.Ctx(max_terms=60000, seconds=BUDGET)
    helpers = {'SIGN': funcs['SIGN'], 'prefun_exact': prefun_hook(funcs)}
    try:
        an = L.Analysis(ctx, fn, helpers)

        def inv_sub(name):
            if name.startswith('~') and name[1:] not in an.outs and name[1:] in an.env0:
                return an.env0[name[1:]]
            return None
        # the pressure function of a side is the rarefaction curve below the side's pressure and the shock curve above it - decided by the iterate it is evaluated at
        pf = stripped(funcs['prefun_exact'])
        pp = [a.arg for a in pf.args.args]
        ifs = [x for x in pf.body if isinstance(x, ast.If)]
        okb, whyb = False, 'prefun_exact has %d top-level branches (expected one if / else)' % len(ifs)
        if len(ifs) == 1 and ifs[0].orelse and len(pp) >= 3:
            def kind(stmts):
                has_pow = any(isinstance(x, ast.BinOp) and isinstance(x.op, ast.Pow) for st in stmts for x in ast.walk(st))
                has_sqrt = any(isinstance(x, ast.Call) and M.call_name(x) == 'sqrt' for st in stmts for x in ast.walk(st))
                return 'rarefaction' if has_pow and not has_sqrt else 'shock' if has_sqrt and not has_pow else None
            kb, ko = kind(ifs[0].body), kind(ifs[0].orelse)
            names = set(x.id for x in ast.walk(ifs[0].test) if isinstance(x, ast.Name))
            if set([kb, ko]) != set(['rarefaction', 'shock']):
                whyb = 'the two branches are not the rarefaction (power law) and the shock (square root) curve'
            elif not names <= set([pp[0], pp[2]]) and names <= set(pp) and an.loop is not None:
                # the choice is handed in by the caller: it is fine when every call in the Newton loop computes it from the current iterate and that side's pressure
                okb, whyb = True, ''
                for c_ in [x for x in ast.walk(an.loop) if isinstance(x, ast.Call) and M.call_name(x) == 'prefun_exact']:
                    bind = dict(zip(pp, c_.args))
                    bind.update(dict((k_.arg, k_.value) for k_ in c_.keywords))
                    in_loop = dict((compact(a_.targets[0]), a_.value) for a_ in ast.walk(an.loop) if isinstance(a_, ast.Assign) and isinstance(a_.targets[0], ast.Name)
                                   and a_.lineno < c_.lineno)
                    vals = {}
                    for nm_ in names:
                        e_ = bind.get(nm_)
                        if isinstance(e_, ast.Name) and e_.id in in_loop:
                            e_ = in_loop[e_.id]
                        vals[nm_] = e_
                    it_, ps_ = compact(bind[pp[0]]), compact(bind[pp[2]])
                    extra_ = [nm_ for nm_ in names if nm_ not in (pp[0], pp[2])]
                    for lo_, hi_ in ((1.0, 2.0), (2.0, 1.0)):
                        env_ = {it_: lo_, ps_: hi_}
                        try:
                            loc_ = {pp[0]: lo_, pp[2]: hi_}
                            for nm_ in extra_:
                                if vals[nm_] is None or not set(x.id for x in ast.walk(vals[nm_]) if isinstance(x, ast.Name)) <= set(env_) or it_ not in [x.id for x in ast.walk(vals[nm_]) if isinstance(x, ast.Name)]:
                                    raise ValueError('`%s` is `%s` at the call in line %d - not computed from the current iterate %s inside the loop' % (nm_, U(bind.get(nm_)) if bind.get(nm_) is not None else '?', c_.lineno, it_))
                                loc_[nm_] = eval(compile(ast.Expression(body=vals[nm_]), '<arg>', 'eval'), {'__builtins__': {}}, env_)
                            got_ = bool(eval(compile(ast.Expression(body=ifs[0].test), '<test>', 'eval'), {'__builtins__': {}}, loc_))
                            if got_ != ((kb == 'rarefaction') == (lo_ < hi_)):
                                okb, whyb = False, 'at the call in line %d the %s curve is used %s the pressure of the side' % (c_.lineno, kb if got_ else ko, 'below' if lo_ < hi_ else 'above')
                        except Exception as ex_:          # noqa
                            okb, whyb = False, 'the branch is chosen by `%s`: %s' % (U(ifs[0].test), ex_)
            elif not names <= set([pp[0], pp[2]]):
                whyb = 'the branch is chosen by `%s`, which depends on %s: it must be decided by comparing the pressure the function is evaluated at (%s) with the pressure of the side (%s), anew for every iterate' % (
                    U(ifs[0].test), sorted(names - set([pp[0], pp[2]])), pp[0], pp[2])
            else:
                try:
                    code = compile(ast.Expression(body=ifs[0].test), '<test>', 'eval')
                    below = bool(eval(code, {'__builtins__': {}}, {pp[0]: 1.0, pp[2]: 2.0}))
                    above = bool(eval(code, {'__builtins__': {}}, {pp[0]: 2.0, pp[2]: 1.0}))
                    want_below = kb == 'rarefaction'
                    okb = below == want_below and above == (not want_below)
                    whyb = 'with `%s` the %s curve is used below the pressure of the side and the %s curve above it' % (U(ifs[0].test), kb if below else ko, kb if above else ko)
                except Exception as ex_:          # noqa
                    whyb = 'branch test `%s` could not be evaluated: %s' % (U(ifs[0].test), ex_)
        chk.decide(okb, 'newton-step', 'prefun_exact:branch-by-the-iterate', node=ifs[0] if ifs else funcs['prefun_exact'], file=RS, func='prefun_exact',
                   detail_bad=whyb + ' (a branch fixed before the iteration converges to the root of the wrong wave curve whenever the guess and the solution lie on different sides of it)',
                   detail_ok='rarefaction for p <= p_side, shock above, tested on the current iterate')
        calls = [s for s in an.loop.body if isinstance(s, ast.Expr) and isinstance(s.value, ast.Call) and M.call_name(s.value) == 'prefun_exact']
        if len(calls) != 2:
            raise AnalysisError('exact no longer evaluates the pressure function once per side in its loop')
        iterate = compact(calls[0].value.args[0])
        sides = []
        for c in calls:
            arr = compact(c.value.args[-1])
            side = [compact(a) for a in c.value.args[1:4]]
            f = ctx.rename(an.outs[arr + '[0]'], inv_sub)
            fd = ctx.rename(an.outs[arr + '[1]'], inv_sub)
            d = ctx.deriv(f, '~' + iterate)
            ok = ctx.prove_zero(d - fd)[0]
            chk.decide(ok, 'newton-step', 'prefun_exact(%s):fd=df/dp' % ','.join(side), node=c, file=RS, func='prefun_exact',
                       detail_bad='for the side (%s) the second output of prefun_exact is not the p-derivative of the first (both branches, with the constants gamma1..gamma6 and '
                                  'the sound speed as defined in exact): the iteration is no longer Newton\'s and `change <= tol` no longer bounds the residual' % ', '.join(side),
                       detail_ok='d/dp of f equals fd on the rarefaction and the shock branch (symbolic differentiation)')
            # the side is the one whose density (a parameter of the solver) is handed over; the pressure must be that side's, the sound speed a value that is
            # sqrt(gamma p / rho) of that side (whatever the local is called)
            got = [compact(a) for a in c.value.args[:4]]
            sd = got[1][-1] if got[1] in ('rhol', 'rhor') else None
            okc = False
            if sd is not None and got[0] == iterate and got[2] == 'p' + sd:
                cval = an.env0.get(got[3])
                if cval is None and got[3] in ('cl', 'cr'):
                    cval = None
                wantc = ctx.fn('sqrt', [ctx.mul(ctx.var('gamma') * ctx.var('p' + sd), ctx.inv(ctx.var('rho' + sd)))])
                okc = cval is not None and ctx.prove_zero(ctx.expand_all(cval) - ctx.expand_all(wantc))[0]
            chk.decide(okc, 'newton-step', 'prefun_exact-call:%s' % (('side-' + sd) if sd else arr), node=c, file=RS, func=nm,
                       detail_bad='called with (%s): the pressure function of one side must see the iterate and that side\'s density, pressure and sound speed sqrt(gamma p/rho)' % ', '.join(got),
                       detail_ok='(%s)' % ', '.join(got))
            sides.append(sd)
        chk.decide(sorted(x or '' for x in sides) == ['l', 'r'], 'newton-step', 'prefun_exact-call:both-sides', node=calls[0], file=RS, func=nm,
                   detail_bad='the two evaluations of the pressure function are for sides %s (expected left and right)' % sides, detail_ok='left and right')
        a0, a1 = [compact(c.value.args[-1]) for c in calls]
        if sides == ['r', 'l']:
            a0, a1 = a1, a0
        # the new iterate: the variable whose value the iterate takes over at the end of an iteration
        cand = sorted(k for k in an.outs if k != iterate and '[' not in k and state_dep(an, k, iterate) and ctx.prove_zero(an.outs[k] - an.outs[iterate])[0])
        if not cand:
            raise AnalysisError('exact: no variable holds the new iterate that %s takes over' % iterate)
        pnew = cand[0]
        jump = ctx.var('ur') - ctx.var('ul')
        F = an.outs[a0 + '[0]'] + an.outs[a1 + '[0]'] + jump
        dF = an.outs[a0 + '[1]'] + an.outs[a1 + '[1]']
        ok = ctx.prove_zero(ctx.rename(ctx.mul(an.outs[pnew] - ctx.var('~' + iterate), dF) + F, inv_sub))[0]
        upd = an.where(pnew, an.loop.body)
        chk.decide(ok, 'newton-step', 'exact:update', node=upd, file=RS, func=nm,
                   detail_bad='%s is not %s - (f_l + f_r + (ur - ul))/(fd_l + fd_r)' % (pnew, iterate), detail_ok='%s = %s - F/F\' with F = f_l + f_r + ur - ul' % (pnew, iterate))
        # the velocity jump, when kept in a loop-invariant local, is ur - ul
        inv_reads = [v for v in an.body_reads if v in an.env0 and v not in an.outs and '[' not in v]
        ud = [v for v in inv_reads if ctx.prove_zero(an.env0[v] - jump)[0]]
        chk.decide(bool(ud) or ok, 'newton-step', 'exact:velocity-jump', node=an.where(ud[0]) if ud else upd, file=RS, func=nm, detail_bad='the velocity jump in the Newton residual is not ur - ul',
                   detail_ok='%s = ur - ul' % (ud[0] if ud else 'residual'))
        # star velocity from the converged pressure functions
        for live, val, env in an.post.returns:
            if isinstance(val, Poly) and val.is_zero():
                want = (ctx.var('ul') + ctx.var('ur') + ctx.var('~%s[0]' % a1) - ctx.var('~%s[0]' % a0)) * Poly.const(S.Fraction(1, 2))
                post_ = [s_ for s_ in fn.body if s_.lineno > an.loop.lineno]
                rnode = next((a_ for s_ in post_ for a_ in ast.walk(s_) if isinstance(a_, ast.Assign) and compact(a_.targets[0]) == 'result[1]'), an.loop)
                chk.decide(ctx.prove_zero(env['result[1]'] - want)[0] and ctx.prove_zero(env['result[0]'] - ctx.var('~' + pnew))[0], 'newton-step', 'exact:star-state', node=rnode,
                           file=RS, func=nm, detail_bad='the returned state is not (p, (ul + ur + f_r - f_l)/2) of the last iterate', detail_ok='result = (p, (ul + ur + f_r - f_l)/2)')
        # stopping test: relative change of successive iterates against tol
        if len(an.exits) != 1:
            raise AnalysisError('exact: expected one break in the Newton loop')
        cnd, env = an.exits[0]
        pn, po = an.outs[pnew], ctx.var('~' + iterate)
        ref = Poly.const(1) - ctx.ind(ctx.fn('abs', [ctx.mul(pn - po, ctx.inv(pn + po))]) * Poly.const(2) - ctx.var('tol'))
        brk = [s for s in ast.walk(an.loop) if isinstance(s, ast.Break)]
        chk.decide(ctx.prove_zero(cnd - ref)[0], 'convergence-test', 'exact:relative-change', node=brk[0], file=RS, func=nm,
                   detail_bad='the loop is not left when 2|p - pold|/(p + pold) <= tol', detail_ok='break when 2|p - pold|/(p + pold) <= tol')
        # vacuum test
        pre = an.pre
        want = ctx.ind((ctx.var('ur') - ctx.var('ul')) - ctx.mul(ctx.mul(Poly.const(2), ctx.inv(ctx.var('gamma') - Poly.const(1))),
                       ctx.fn('sqrt', [ctx.mul(ctx.var('gamma') * ctx.var('pl'), ctx.inv(ctx.var('rhol')))]) + ctx.fn('sqrt', [ctx.mul(ctx.var('gamma') * ctx.var('pr'), ctx.inv(ctx.var('rhor')))])))
        first = [(live, val) for live, val, env in pre.returns]
        def ind_arg(p_):
            """the argument of a bare indicator [arg > 0] (definitions inside it expanded), None for anything else"""
            if len(p_.t) == 1:
                (mono, c_), = p_.t.items()
                if c_ == 1 and len(mono) == 1 and mono[0][1] == 1 and ctx.atoms.get(mono[0][0], ('',))[0] == 'ind':
                    return ctx.expand_all(ctx.atoms[mono[0][0]][1])
            return None
        okv = len(first) == 1 and isinstance(first[0][1], Poly) and first[0][1] == Poly.const(1)
        if okv:
            okv = ctx.prove_zero(ctx.expand_all(first[0][0]) - ctx.expand_all(want))[0]
            if not okv:
                # the same test with its operands kept in temporaries: compare what the indicators test, not the indicator atoms (1 - [x > 0] is the `<=` spelling)
                ga, wa = ind_arg(first[0][0]), ind_arg(want)
                def unit(p_):
                    """scaled so that the coefficient of `ur` has modulus 1 (a positive factor does not change what an indicator tests)"""
                    for mono, c_ in p_.t.items():
                        if mono == (('ur', 1),):
                            return p_ * Poly.const(1 / abs(c_))
                    return p_
                if ga is None:
                    ga2 = ind_arg(Poly.const(1) - first[0][0])
                    wa2 = ind_arg(Poly.const(1) - want) if wa is None else None
                    okv = ga2 is not None and ((wa2 is not None and ctx.prove_zero(unit(ga2) - unit(wa2))[0]) or (wa is not None and ctx.prove_zero(unit(ga2) + unit(wa))[0]))
                else:
                    okv = wa is not None and ctx.prove_zero(unit(ga) - unit(wa))[0]
        vac = [s for s in fn.body if isinstance(s, ast.If) and any(isinstance(x, ast.Return) for x in ast.walk(s)) and s.lineno < an.loop.lineno]
        chk.decide(okv, 'vacuum-check', 'exact', node=vac[0] if vac else fn, file=RS, func=nm,
                   detail_bad='exact must return 1 before iterating exactly when 2(c_l + c_r)/(gamma - 1) <= u_r - u_l with c = sqrt(gamma p / rho) (pressure positivity condition)',
                   detail_ok='returns 1 iff 2(c_l + c_r)/(gamma-1) <= ur - ul, before the initial guess')
    except (S.Unsupported, S.Budget) as e:
        chk.undecided('newton-step', nm, node=funcs[nm], file=RS, func=nm, detail='prover gave up: %s' % e)


def state_dep(an, k, iterate):
    return True


# ---------------------------------------------------------------------------------------------------------------------
def oriented(cmp, wants_left):
    """the single-operator comparison with the side satisfying wants_left on the left (a < b is b > a)"""
    if isinstance(cmp, ast.Compare) and len(cmp.ops) == 1 and not wants_left(cmp.left) and wants_left(cmp.comparators[0]):
        m = {ast.Lt: ast.Gt, ast.Gt: ast.Lt, ast.LtE: ast.GtE, ast.GtE: ast.LtE, ast.Eq: ast.Eq, ast.NotEq: ast.NotEq}.get(type(cmp.ops[0]))
        if m is not None:
            return ast.Compare(left=cmp.comparators[0], ops=[m()], comparators=[cmp.left])
    return cmp


def rule_wave_patterns(chk, funcs):
    """a loop-free solver that selects its result by the signs of its wave speeds and reports failure when no case applies: the cases must cover every sign pattern that
    can occur with the left wave moving left and the right wave moving right - whatever the sign of the middle wave, *zero included* (a contact exactly at rest is what
    identical or mirror-image states give) - and the two supersonic patterns.  The chain of tests is evaluated exactly on the sign patterns (tests compare with 0 only)"""
    import itertools
    n = 0
    for nm, fn in sorted(funcs.items()):
        chains = []
        for top in [s_ for s_ in stripped(fn).body if isinstance(s_, ast.If)] if hasattr(stripped(fn), 'body') else []:
            tests, cur = [], top
            while True:
                tests.append(cur.test)
                if len(cur.orelse) == 1 and isinstance(cur.orelse[0], ast.If):
                    cur = cur.orelse[0]
                    continue
                break
            fails = any(isinstance(r, ast.Return) and isinstance(r.value, ast.Constant) and r.value.value not in (0, None) for b_ in cur.orelse for r in ast.walk(b_))
            if len(tests) >= 3 and fails:
                chains.append((top, tests))
        for top, tests in chains:
            names = []
            okform = True
            for t_ in tests:
                for x in ast.walk(t_):
                    if isinstance(x, ast.Name) and x.id not in names:
                        names.append(x.id)
                    if isinstance(x, ast.Constant) and not (isinstance(x.value, (int, float)) and x.value == 0):
                        okform = False
            if len(names) != 3 or not okform:
                continue
            n += 1
            left, right = names[0], names[-1]
            mid = [x for x in names if x not in (left, right)][0]
            # the last test names the right wave
            last_names = [x.id for x in ast.walk(tests[-1]) if isinstance(x, ast.Name)]
            if last_names:
                right = last_names[-1]
                mid = [x for x in names if x not in (left, right)][0]
            need = [dict(zip((left, mid, right), v)) for v in ((-1, -1, 1), (-1, 0, 1), (-1, 1, 1), (1, 1, 1), (-1, -1, -1))]
            missed = []
            for env in need:
                hit = False
                for t_ in tests:
                    try:
                        if eval(compile(ast.fix_missing_locations(ast.Expression(body=ast.parse(ast.unparse(t_), mode='eval').body)), '<wave>', 'eval'), {'__builtins__': {}}, dict(env)):
                            hit = True
                            break
                    except Exception:
                        hit = None
                        break
                if hit is None:
                    missed = None
                    break
                if not hit:
                    missed.append(env)
            if missed is None:
                chk.undecided('dispatch-table', nm + ':wave-patterns-covered', node=top, file=RS, func=nm, detail='wave-pattern tests not evaluable')
                continue
            chk.decide(not missed, 'dispatch-table', nm + ':wave-patterns-covered', node=top, file=RS, func=nm,
                       detail_bad='no case of the wave-pattern selection applies when the signs of (%s, %s, %s) are %s: the solver reports failure and writes no result - with a contact '
                                  'exactly at rest that is what identical (or mirror-image) left and right states give' % (left, mid, right, [tuple(e_[k_] for k_ in (left, mid, right)) for e_ in missed]),
                       detail_ok='the five patterns with the outer waves apart or on one side are each selected by a case')
    chk.floor('wave-pattern selections with a failure branch', n, 1)


def rule_success(chk, funcs, names):
    """success (return 0) implies the convergence test passed: neither an empty nor an exhausted loop may report success"""
    for nm in names:
        fn = funcs[nm]
        pre, loop, post = L.split(stripped(fn))
        breaks = [b for b in ast.walk(loop) if isinstance(b, ast.Break)]
        guards = [M.enclosing(b, ast.If) for b in breaks]
        okb = len(breaks) == 1 and guards[0] is not None and M.enclosing(guards[0], (ast.For, ast.While)) is loop
        chk.decide(okb, 'success-implies-converged', nm + ':single-guarded-break', node=loop, file=RS, func=nm,
                   detail_bad='the iteration must be left early only through one break guarded by the convergence test', detail_ok='one break under `if %s`' % compact(guards[0].test)[:50] if okb else '')
        if not okb:
            continue
        test = guards[0].test
        # the iteration stops because a comparison came out TRUE, never because its negation came out false: every comparison with a NaN is false, so `if change > tol:
        # go on; else: stop` stops - and reports success - on the first iterate that is not a number (a negative pressure under the square root)
        in_body = any(breaks[0] is x for b_ in guards[0].body for x in ast.walk(b_))
        negated = isinstance(test, ast.UnaryOp) and isinstance(test.op, ast.Not)
        chk.decide(in_body and not negated, 'convergence-test', nm + ':stops-on-a-true-comparison', node=guards[0], file=RS, func=nm,
                   detail_bad='the loop is left in the %s of `if %s`: with a NaN iterate that branch is taken although nothing has converged, and the result is returned as success' % (
                       'else branch' if not in_body else 'body under a negation', compact(test)[:60]),
                   detail_ok='break in the body of `if %s`' % compact(test)[:60])
        succ = [r for s in post for r in ast.walk(s) if isinstance(r, ast.Return) and isinstance(r.value, ast.Constant) and r.value.value == 0]
        if len(succ) != 1:
            chk.violated('success-implies-converged', nm + ':one-success-return', node=fn, file=RS, func=nm, detail='expected exactly one `return 0` after the loop')
            continue
        if isinstance(test, ast.Name):
            # flag idiom: flag = <comparison with tol>, assigned only there; initialised false before the loop; success guarded by the flag
            flag = test.id
            assigns = [a for a in ast.walk(fn) if isinstance(a, ast.Assign) and compact(a.targets[0]) == flag]
            inloop = [a for a in assigns if any(a is x for x in ast.walk(loop))]
            before = [a for a in assigns if a.lineno < loop.lineno and M.enclosing(a, (ast.If, ast.For, ast.While)) is None]
            init_false = bool(before) and all(isinstance(a.value, ast.Constant) and not a.value.value for a in before)
            chk.decide(init_false, 'success-implies-converged', nm + ':flag-initialised', node=before[0] if before else loop, file=RS, func=nm,
                       detail_bad='`%s` is assigned only inside the loop: with niter <= 0 the test after the loop reads an unassigned local (UnboundLocalError in Python, indeterminate when '
                                  'transpiled) and success may be reported for a state that was never iterated' % flag, detail_ok='%s = 0 before the loop' % flag)
            ftest = oriented(inloop[0].value, lambda e_: 'tol' not in compact(e_)) if len(inloop) == 1 else None       # <change> on the left, the tolerance on the right
            cmp_ok = len(inloop) == 1 and isinstance(ftest, ast.Compare) and 'tol' in compact(ftest.comparators[0]) and 'tol' not in compact(ftest.left) \
                and isinstance(ftest.ops[0], (ast.Lt, ast.LtE)) and len(assigns) == len(inloop) + len(before)
            chk.decide(cmp_ok, 'success-implies-converged', nm + ':flag-is-the-test', node=inloop[0] if inloop else loop, file=RS, func=nm,
                       detail_bad='`%s` must be set only by `<change> < tol` inside the loop' % flag, detail_ok='%s = %s' % (flag, compact(inloop[0].value)[:60]) if inloop else '')
            g = M.enclosing(succ[0], ast.If)
            guarded = g is not None and compact(g.test) == flag and any(succ[0] is x for s in g.body for x in ast.walk(s))
            chk.decide(guarded, 'success-implies-converged', nm + ':success-guarded', node=succ[0], file=RS, func=nm,
                       detail_bad='`return 0` is not guarded by `if %s`' % flag, detail_ok='return 0 only under `if %s`' % flag)
            if 'tol' in compact(inloop[0].value) if inloop else False:
                chk.holds('convergence-test', nm + ':relative-change', node=inloop[0], file=RS, func=nm, detail='%s' % compact(inloop[0].value))
        else:
            # index idiom: the loop counter tells after the loop how it was left.  Counter loops understood: `for i in range(niter)` (exhausted: i == niter - 1) and
            # `i = c; while i < niter: ...; i += 1` with the increment last (exhausted: i == niter); a break at step k leaves i == k in both; with niter <= 0 the
            # body never runs and i keeps its initial value.  Every path through the code after the loop that reports success must be impossible for an exhausted and
            # for an empty loop (the tests on the counter it passed are evaluated for those values)
            from verif_static import paths as PT
            ivar, exhausted_off = None, None
            if isinstance(loop, ast.For) and compact(loop.iter) == 'range(niter)' and isinstance(loop.target, ast.Name):
                ivar, exhausted_off = loop.target.id, -1
            elif isinstance(loop, ast.While) and isinstance(loop.test, ast.Compare):
                wt = oriented(loop.test, lambda e_: isinstance(e_, ast.Name) and compact(e_) != 'niter')
                if isinstance(wt.left, ast.Name) and isinstance(wt.ops[0], ast.Lt) and compact(wt.comparators[0]) == 'niter' and loop.body and \
                        isinstance(loop.body[-1], ast.AugAssign) and isinstance(loop.body[-1].op, ast.Add) and compact(loop.body[-1].target) == wt.left.id and compact(loop.body[-1].value) == '1' and \
                        not any(isinstance(x, ast.Continue) for x in ast.walk(loop)) and \
                        sum(1 for x in ast.walk(loop) if isinstance(x, (ast.Assign, ast.AugAssign)) and compact(x.targets[0] if isinstance(x, ast.Assign) else x.target) == wt.left.id) == 1:
                    ivar, exhausted_off = wt.left.id, 0
            if ivar is None:
                chk.error('%s: unrecognised iteration idiom (neither a convergence flag nor a counter loop over niter)' % nm)
                continue
            inits = [a for s in pre for a in ast.walk(s) if isinstance(a, ast.Assign) and compact(a.targets[0]) == ivar and isinstance(a.value, ast.Constant)]
            if not inits:
                # decidable only when the code after the loop evidently reads a value that an empty loop never sets
                tests = [s2 for s2 in post if isinstance(s2, ast.If) and s2.lineno < succ[0].lineno and any(isinstance(r, ast.Return) for r in ast.walk(s2))]
                read = set(x.id for s2 in tests for x in ast.walk(s2.test) if isinstance(x, ast.Name))
                set_before = set()
                for s2 in pre:
                    for a in ast.walk(s2):
                        if isinstance(a, ast.Assign) and not (isinstance(a.value, ast.Call) and M.call_name(a.value) == 'declare'):
                            for tg in a.targets:
                                set_before.update(x.id for x in ast.walk(tg) if isinstance(x, ast.Name))
                params = set(a.arg for a in fn.args.args)
                unset = sorted(v for v in read if v not in set_before and v not in params)
                if unset or not tests:
                    chk.violated('success-implies-converged', nm + ':exhaustion-test', node=tests[0] if tests else succ[0], file=RS, func=nm,
                                 detail=('the test between the loop and `return 0` reads %s, assigned only inside the loop: with niter <= 0 it is unset (0.0 / indeterminate) and success is reported '
                                         'for a state that was never iterated' % unset) if tests else 'nothing between the loop and `return 0` reports failure for an exhausted or empty loop')
                else:
                    chk.error('%s: the loop counter %s has no initial value before the loop: needs review' % (nm, ivar))
                continue
            i0 = inits[-1].value.value

            def counter_fact(x):
                """(op, k) for a comparison `ivar <op> niter + k`, None otherwise"""
                x = oriented(x, lambda e_: compact(e_) == ivar)
                if not (isinstance(x, ast.Compare) and len(x.ops) == 1 and compact(x.left) == ivar):
                    return None
                rhs = x.comparators[0]
                if compact(rhs) == 'niter':
                    return type(x.ops[0]), 0
                if isinstance(rhs, ast.BinOp) and compact(rhs.left) == 'niter' and isinstance(rhs.right, ast.Constant) and isinstance(rhs.op, (ast.Add, ast.Sub)):
                    return type(x.ops[0]), (rhs.right.value if isinstance(rhs.op, ast.Add) else -rhs.right.value)
                return None
            CMP = {ast.Eq: lambda a_, b_: a_ == b_, ast.NotEq: lambda a_, b_: a_ != b_, ast.Lt: lambda a_, b_: a_ < b_, ast.LtE: lambda a_, b_: a_ <= b_,
                   ast.Gt: lambda a_, b_: a_ > b_, ast.GtE: lambda a_, b_: a_ >= b_}
            bad_ex = bad_em = None
            nsucc = 0
            unknown_test = None
            for p_ in PT.enumerate_paths(list(post)):
                r_ = p_[-1]
                if not (r_.kind == 'return' and isinstance(r_.node.value, ast.Constant) and r_.node.value.value == 0):
                    continue
                nsucc += 1
                facts = []
                for x, tr_ in PT.path_facts(p_):
                    cf = counter_fact(x)
                    if cf is not None and cf[0] in CMP:
                        facts.append((cf, tr_))
                    elif ivar in [y.id for y in ast.walk(x) if isinstance(y, ast.Name)]:
                        unknown_test = x
                # exhausted: ivar == niter + exhausted_off (niter >= 1): the path is possible when every fact agrees
                if all(CMP[op](exhausted_off, k) == tr_ for (op, k), tr_ in facts):
                    bad_ex = bad_ex or p_
                # empty: ivar == i0 and niter <= 0
                if any(all(CMP[op](i0, nit + k) == tr_ for (op, k), tr_ in facts) for nit in list(range(0, -65, -1)) + [-10 ** 6]):
                    bad_em = bad_em or p_
            if unknown_test is not None:
                chk.error('%s: unrecognised test on the loop counter after the loop (`%s`): needs review' % (nm, compact(unknown_test)))
                continue
            shown = lambda p_: ', '.join('%s is %s' % (compact(x), tr_) for x, tr_ in PT.path_facts(p_)) or 'no test'        # noqa: E731
            chk.decide(nsucc > 0 and bad_ex is None, 'success-implies-converged', nm + ':exhausted-loop-reports-failure', node=succ[0], file=RS, func=nm,
                       detail_bad='after niter iterations without convergence %s == niter%s and the path to `return 0` with %s is taken: the unconverged iterate is returned as success'
                                  % (ivar, ' - 1' if exhausted_off else '', shown(bad_ex) if bad_ex else ''),
                       detail_ok='%s == niter%s never reaches `return 0`' % (ivar, ' - 1' if exhausted_off else ''))
            chk.decide(nsucc > 0 and bad_em is None, 'success-implies-converged', nm + ':empty-loop-reports-failure', node=succ[0], file=RS, func=nm,
                       detail_bad='with niter <= 0 the body never runs, %s keeps its initial value %s and the path to `return 0` with %s is taken: success is reported with p = 0.0 and an unset star velocity'
                                  % (ivar, i0, shown(bad_em) if bad_em else ''), detail_ok='%s = %s never reaches `return 0` for any niter <= 0' % (ivar, i0))
        # van Leer's iteration stops on the relative change of the pressure iterate: |p_new - p_old|/p_new < tol, p_old being the copy taken at the top of the pass
    vl0 = funcs.get('van_leer')
    if vl0 is not None:
        from verif_static import norm as N2
        pre0, loop0, post0 = L.split(stripped(vl0))
        res0 = [a for s_ in post0 for a in ast.walk(s_) if isinstance(a, ast.Assign) and compact(a.targets[0]) == 'result[0]' and isinstance(a.value, ast.Name)]
        pv0 = res0[0].value.id if len(res0) == 1 else None
        saved0 = []
        cmp0 = [a.value for a in ast.walk(loop0) if isinstance(a, ast.Assign) and isinstance(a.value, ast.Compare) and len(a.value.ops) == 1 and 'tol' in compact(a.value)] + \
               [i_.test for i_ in ast.walk(loop0) if isinstance(i_, ast.If) and isinstance(i_.test, ast.Compare) and 'tol' in compact(i_.test) and any(isinstance(x, ast.Break) for x in ast.walk(i_))]
        okv = False
        if pv0 and len(cmp0) == 1:
            # the other quantity in the test: a copy of the iterate taken (at the top level of the pass) before the iterate is first assigned in that pass
            others0 = sorted(set(x.id for x in ast.walk(cmp0[0]) if isinstance(x, ast.Name)) - set([pv0, 'abs', 'fabs', 'tol']))
            if len(others0) == 1:
                q_ = others0[0]
                idx_q = [k_ for k_, a in enumerate(loop0.body) if isinstance(a, ast.Assign) and compact(a.targets[0]) == q_]
                idx_p = [k_ for k_, a in enumerate(loop0.body) if any(isinstance(t_, ast.Name) and t_.id == pv0 and isinstance(t_.ctx, ast.Store) for t_ in ast.walk(a))]
                if len(idx_q) == 1 and isinstance(loop0.body[idx_q[0]].value, ast.Name) and loop0.body[idx_q[0]].value.id == pv0 and idx_p and idx_q[0] < min(idx_p):
                    saved0 = [q_]
        if pv0 and len(saved0) == 1 and len(cmp0) == 1:
            c0 = cmp0[0]
            l0, op0, r0 = c0.left, c0.ops[0], c0.comparators[0]
            if compact(l0) == 'tol':
                l0, r0 = r0, l0
                op0 = {ast.Gt: ast.Lt(), ast.GtE: ast.LtE()}.get(type(op0), op0)
            q0 = saved0[0]
            okv = isinstance(op0, (ast.Lt, ast.LtE)) and compact(r0) == 'tol' and any(N2.same(l0, f_ % dict(p=pv0, q=q0)) for f_ in (
                'abs(%(p)s - %(q)s)/%(p)s', 'abs(%(q)s - %(p)s)/%(p)s', 'abs((%(p)s - %(q)s)/%(p)s)', 'abs((%(q)s - %(p)s)/%(p)s)', 'abs(%(p)s - %(q)s)/abs(%(p)s)'))
        chk.decide(okv, 'convergence-test', 'van_leer:relative-change', node=cmp0[0] if cmp0 else vl0, file=RS, func='van_leer',
                   detail_bad='the iteration is not left when |p - p_old|/p < tol with p_old the copy of the iterate taken at the top of the pass (found `%s`)' % (U(cmp0[0]) if cmp0 else None),
                   detail_ok='|p - p_old|/p < tol')
    # declare('<type>', k) hands back k values: unpacked into exactly k names (a mismatch raises in pure Python and declares the wrong variables when transpiled)
    for fname_, fdef_ in sorted(funcs.items()):
        for a_ in ast.walk(fdef_):
            if isinstance(a_, ast.Assign) and isinstance(a_.value, ast.Call) and M.call_name(a_.value) == 'declare' and len(a_.value.args) == 2 and isinstance(a_.value.args[1], ast.Constant):
                nt_ = len(a_.targets[0].elts) if isinstance(a_.targets[0], ast.Tuple) else 1
                if nt_ != a_.value.args[1].value:
                    chk.violated('call-arity', '%s:declare@%d' % (fname_, a_.lineno), node=a_, file=RS, func=fname_,
                                 detail='`%s` unpacks %s declared values into %d names' % (U(a_)[:60], a_.value.args[1].value, nt_))
        # positivity floor (where the solver has one)
    vl = funcs.get('van_leer')
    if vl is not None:
        pre, loop, post = L.split(stripped(vl))
        # the pressure iterate is whatever the post block hands back as result[0]; its last assignment in the loop is max(<it>, <a positive literal, directly or through a local>)
        res = [a for s in post for a in ast.walk(s) if isinstance(a, ast.Assign) and compact(a.targets[0]) == 'result[0]']
        pv = compact(res[0].value) if len(res) == 1 and isinstance(res[0].value, ast.Name) else None
        last = [a for a in ast.walk(loop) if isinstance(a, ast.Assign) and compact(a.targets[0]) == pv]
        floor_ok = pv is not None and bool(last) and isinstance(last[-1].value, ast.Call) and M.call_name(last[-1].value) == 'max' and len(last[-1].value.args) == 2 \
            and pv in [compact(a) for a in last[-1].value.args]
        sp = []
        if floor_ok:
            other = [a for a in last[-1].value.args if compact(a) != pv]
            if len(other) == 1 and isinstance(other[0], ast.Name):
                sp = [a for a in ast.walk(vl) if isinstance(a, ast.Assign) and compact(a.targets[0]) == other[0].id]
                floor_ok = len(sp) == 1 and isinstance(sp[0].value, ast.Constant) and isinstance(sp[0].value.value, (int, float)) and sp[0].value.value > 0
            else:
                floor_ok = len(other) == 1 and isinstance(other[0], ast.Constant) and isinstance(other[0].value, (int, float)) and other[0].value > 0
                sp = [ast.Assign(targets=[ast.Name(id='floor')], value=other[0])] if floor_ok else []
        chk.decide(floor_ok, 'positive-star-pressure', 'van_leer:floor', node=last[-1] if last else vl, file=RS, func='van_leer',
                   detail_bad='the last assignment of every iteration must be pstar = max(smallp, pstar) with smallp > 0, and result[0] = pstar',
                   detail_ok='pstar = max(smallp, pstar), smallp = %s > 0, result[0] = pstar' % (compact(sp[0].value) if sp else '?'))


def main(chk):
    t, funcs = functions()
    table = dispatch_table(chk, funcs)
    solvers = [table[k] for k in sorted(table)]
    chk.floor('solver functions', len(solvers), 11)
    rule_tables(chk, funcs, table)
    iterative = [nm for nm in solvers if nm in funcs and any(isinstance(s, (ast.For, ast.While)) for s in funcs[nm].body)]
    loop_free = [nm for nm in solvers if nm in funcs and nm not in iterative]
    if any(isinstance(x, (ast.For, ast.While)) for nm in loop_free for x in ast.walk(funcs[nm])):
        chk.error('a solver has a nested loop the analysis does not model')
    chk.unit('loop-free solvers', loop_free)
    chk.unit('iterative solvers', iterative)
    chk.floor('iterative solvers', len(iterative), 2)
    rule_loop_free(chk, funcs, loop_free)
    rule_iterative(chk, funcs, iterative)
    rule_common_state_iterative(chk, funcs, iterative)
    if 'exact' in iterative:
        rule_newton(chk, funcs)
    rule_success(chk, funcs, iterative)
    rule_wave_patterns(chk, funcs)
    chk.assume('ties in comparisons (x == 0 exactly) are ignored; rounding is not modelled; reciprocals are taken where the code takes them (non-zero denominators)')
    chk.assume('"finite" and "to the requested tolerance" as numbers are not decided: the check proves that success is reported only after the relative-change test passed '
               'on a Newton iterate whose derivative is exact')
    chk.note('fingerprints (evaluation of the abstract terms at two fixed pseudo-random points) only select which identities to attempt and downgrade an unproved identity that '
             'holds at both points to UNDECIDED; no verdict HOLDS or VIOLATED rests on them')


if __name__ == '__main__':
    run_check('C15', main, level='proof')
