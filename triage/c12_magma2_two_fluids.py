"""Triage demo for the C12 finding in MAGMA2Scheme.get_equations (adaptive_h_scheme='mpm', two fluid arrays): the iterated
density group was appended inside the loop over the fluids, so the same Group list - and with it the same equation objects -
was listed once per fluid; the evaluator source then declares one 'cdef public SummationDensityMPMStyle <name>' attribute twice
and cannot be compiled.  The source of the evaluator is generated, nothing is compiled.

  cd /tmp && timeout 300 /venv/bin/python /verif/triage/c12_magma2_two_fluids.py     (TRIAGE_SRC=<tree> for another source tree)

Exit 1 when an equation object is listed twice / an attribute is declared twice (tree before the fix: commit), 0 otherwise.
"""
import collections, os, sys
sys.path.insert(0, os.path.dirname(os.path.abspath(__file__)))
import _overlay  # noqa
import numpy as np
from pysph.base.utils import get_particle_array
from pysph.base.kernels import CubicSpline
from pysph.sph.gas_dynamics.magma2 import MAGMA2Scheme
from pysph.sph.acceleration_eval import AccelerationEval
from pysph.sph.acceleration_eval_cython_helper import AccelerationEvalCythonHelper

x = np.linspace(0, 1, 5)
pas = [get_particle_array(name=n, x=x, h=0.1, m=1.0, rho=1.0) for n in ('f1', 'f2')]
s = MAGMA2Scheme(fluids=['f1', 'f2'], solids=[], dim=1, gamma=1.4, adaptive_h_scheme='mpm', hfact=1.2)
s.setup_properties(pas)
eqs = s.get_equations()
seen = collections.Counter(id(e) for g in eqs for e in g.equations)
twice = sum(1 for v in seen.values() if v > 1)
code = AccelerationEvalCythonHelper(AccelerationEval(pas, eqs, CubicSpline(dim=1))).get_code()
decl = collections.Counter(l.strip() for l in code.splitlines()
                           if l.strip().startswith('cdef public') and 'summation_density' in l)
dup = [k for k, v in decl.items() if v > 1]
print('equation objects listed twice:', twice)
print('attributes declared twice:', dup)
sys.exit(1 if twice or dup else 0)
