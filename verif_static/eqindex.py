"""Index of all shipped Equation / IntegratorStep / Scheme / Integrator classes (source level)."""
import ast
import re

from . import model as M

HOOKS = ('initialize', 'initialize_pair', 'loop', 'loop_all', 'post_loop', 'reduce', 'py_initialize', 'converged')
PAR_HOOKS = ('initialize', 'initialize_pair', 'loop', 'loop_all', 'post_loop')

_idx = {}


def index(repo=None):
    key = repo or M.REPO
    if key not in _idx:
        rels = [r for r in M.pyfiles('pysph/sph', repo) if '/tests/' not in r]
        rels += [r for r in M.pyfiles('pysph/tools', repo) if r.endswith(('interpolator.py', 'sph_evaluator.py'))]
        rels += [r for r in M.pyfiles('pysph/base', repo) if r.endswith('kernels.py')]
        _idx[key] = M.ClassIndex(rels, repo)
    return _idx[key]


def equations(repo=None):
    """[(rel, ClassDef)] for every class deriving (transitively) from Equation"""
    ci = index(repo)
    out = []
    for rel, cls in ci.subclasses('Equation'):
        out.append((rel, cls))
    return sorted(out, key=lambda x: (x[0], x[1].lineno))


def steppers(repo=None):
    ci = index(repo)
    return sorted(ci.subclasses('IntegratorStep'), key=lambda x: (x[0], x[1].lineno))


def hook_methods(cls, names=HOOKS):
    return [(n, f) for n, f in M.methods(cls).items() if n in names]


def stage_methods(cls):
    return [(n, f) for n, f in M.methods(cls).items() if n == 'initialize' or re.match(r'^stage\d+$', n)]


def resolved_hooks(ci, rel, cls, names=HOOKS):
    """hook name -> (rel, defining class, FunctionDef) through the MRO"""
    out = {}
    for n in names:
        got = ci.lookup_method(rel, cls, n)
        if got is not None and got[1].name != 'Equation':
            out[n] = got
    return out
