"""C10 - the solver loop (static rules on Solver.solve and its time-step helpers, DESIGN.md C10)."""
import ast
import os
import re
import sys

sys.path.insert(0, os.path.dirname(os.path.dirname(os.path.abspath(__file__))))
from verif_static.core import run_check, AnalysisError  # noqa
from verif_static.norm import same, same_stmt  # noqa
from verif_static import model as M, cfg as C, norm as N  # noqa

SOL = 'pysph/solver/solver.py'


def U(n):
    return M.unparse(n)


def compact(n):
    return U(n).replace(' ', '')


def stmt_calls(n, name):
    return n.ast is not None and isinstance(n.ast, (ast.Expr, ast.Assign)) and any(M.call_name(c) == name for c in M.calls(n.ast))


def N_same_landing(e, rname):
    """the test `t + <returned name> > tf - epsilon` (any equivalent spelling)"""
    from verif_static import norm as N
    return N.same(e.node, 'self.t + %s > self.tf - self._epsilon' % rname, 'self.t + %s >= self.tf - self._epsilon' % rname)


def rule_clamp(chk, cls):
    """the step is shortened only to land on a requested output time, and the nominal step is saved first (shared with C19: the saved step is what the run falls back on
    when no criterion applies afterwards)"""
    # --- clamp: decided per feasible path through _dump_output_if_needed (private helpers inlined, path-local names substituted)
    from verif_static import paths as PT
    dn = M.find_func(cls, '_dump_output_if_needed')
    dpaths = PT.enumerate_paths(M.docstring_stripped(dn.body))
    chk.unit('paths through _dump_output_if_needed', len(dpaths))

    def is_clamp(e):
        return e.kind == 'stmt' and isinstance(e.node, ast.Assign) and U(e.node.targets[0]) == 'self.dt'
    cl_paths = [(p_, [i for i, e in enumerate(p_) if is_clamp(e)]) for p_ in dpaths]
    cl_paths = [(p_, ix) for p_, ix in cl_paths if ix]
    if not cl_paths:
        chk.violated('clamp', 'single-site', node=dn, file=SOL, func='_dump_output_if_needed', detail='no path shortens self.dt to land on a requested output time')
    else:
        sites = set(id(p_[i].node) for p_, ix in cl_paths for i in ix)
        chk.decide(len(sites) == 1 and all(len(ix) == 1 for p_, ix in cl_paths), 'clamp', 'single-site', node=cl_paths[0][0][cl_paths[0][1][0]].node, file=SOL, func='_dump_output_if_needed',
                   detail_bad='self.dt is assigned at %d sites / more than once on a path' % len(sites), detail_ok='one assignment, once per path')
        MASKS = ('(self.output_at_times - self.t > 0) & (self.output_at_times - self.t < self.dt)', '(self.output_at_times - self.t < self.dt) & (self.output_at_times - self.t > 0)')
        # "some requested time lies within the next step", however it is asked: any(mask), mask.any(), a non-empty numpy.where(mask)[0]
        TOO_BIG = tuple(f % m_ for m_ in MASKS for f in ('numpy.any(%s)', '(%s).any()', 'len(numpy.where(%s)[0]) > 0', 'numpy.where(%s)[0].size > 0', 'len(numpy.nonzero(%s)[0]) > 0',
                                                         'numpy.count_nonzero(%s) > 0', 'len(numpy.where(%s)[0]) != 0', 'len(numpy.where(%s)[0])'))
        bad = {'lands': None, 'guard': None, 'reach': None, 'saved': None}
        for p_, ix in cl_paths:
            e = p_[ix[0]]
            val = PT.resolve(e.node.value, e.env)
            v0 = val.args[0] if isinstance(val, ast.Call) and M.call_name(val) == 'float' and len(val.args) == 1 else val
            subs_ = [x for x in ast.walk(v0) if isinstance(x, ast.Subscript) and compact(x.value) == 'self.output_at_times']
            lands = bool(subs_) and same(v0, '%s - self.t' % U(subs_[0]))
            if not lands and bad['lands'] is None:
                bad['lands'] = U(val)
            gi_ = PT.took(p_[:ix[0]], True, *TOO_BIG)
            if gi_ is None and bad['guard'] is None:
                bad['guard'] = [U(PT.resolve(x.node, x.env)) + ' -> %s' % x.truth for x in p_[:ix[0]] if x.kind == 'cond']
            li_ = PT.took(p_[:ix[0]], True, 'len(self.output_at_times) > 0', 'len(self.output_at_times) != 0', 'len(self.output_at_times)')
            if li_ is None and bad['reach'] is None:
                bad['reach'] = [U(x.node) + ' -> %s' % x.truth for x in p_[:ix[0]] if x.kind == 'cond']
            sv = [i for i, x in enumerate(p_[:ix[0]]) if x.kind == 'stmt' and isinstance(x.node, ast.Assign) and U(x.node.targets[0]) == 'self._prev_dt'
                  and compact(PT.resolve(x.node.value, x.env)) == 'self.dt']
            if not sv and bad['saved'] is None:
                bad['saved'] = True
        node_c = cl_paths[0][0][cl_paths[0][1][0]].node
        chk.decide(bad['lands'] is None, 'clamp', 'lands-on-output-time', node=node_c, file=SOL, func='_dump_output_if_needed',
                   detail_bad='clamped step is %s (must be <a requested output time> - t: never past a requested time)' % bad['lands'], detail_ok='output_at_times[k] - t')
        chk.decide(bad['guard'] is None, 'clamp', 'guard', node=node_c, file=SOL, func='_dump_output_if_needed',
                   detail_bad='a path shortens the step without having found a requested time with 0 < tdiff < dt (tests on that path: %s)' % bad['guard'], detail_ok='(tdiff > 0) & (tdiff < dt)')
        chk.decide(bad['reach'] is None, 'clamp', 'only-when-a-time-is-within-reach', node=node_c, file=SOL, func='_dump_output_if_needed',
                   detail_bad='clamp conditions are %s' % bad['reach'], detail_ok='only with requested times, one of them within reach')
        # a requested time the run is already at (just shy of it, within the tolerance) is not landed on again: the next requested time inside the step is taken instead -
        # some clamping path lands on the second candidate under the facts "the first one is the present time" and "there is another", or the candidates are scanned in a loop
        second = False
        lands_now = None
        wrong_cand = None
        for p_, ix in cl_paths:
            e = p_[ix[0]]
            v_ = compact(PT.resolve(e.node.value, e.env))
            def oriented(t_):
                # (left text, operator class, right text) of a single comparison with the tolerance / the literal on the right, whichever way it is written
                if not (isinstance(t_, ast.Compare) and len(t_.ops) == 1):
                    return None
                l_, op_, r_ = t_.left, type(t_.ops[0]), t_.comparators[0]
                if isinstance(l_, ast.Constant) or compact(l_) == 'self._epsilon':
                    l_, r_ = r_, l_
                    op_ = {ast.Lt: ast.Gt, ast.Gt: ast.Lt, ast.LtE: ast.GtE, ast.GtE: ast.LtE}.get(op_, op_)
                return compact(l_), op_, compact(r_)
            facts = [(oriented(t_), tr) for t_, tr in PT.path_facts(p_[:ix[0]])]
            facts = [(f_, tr) for f_, tr in facts if f_ is not None]
            near = any('abs(' in f_[0] and f_[2] == 'self._epsilon' and ((f_[1] in (ast.Lt, ast.LtE) and tr) or (f_[1] in (ast.Gt, ast.GtE) and not tr)) for f_, tr in facts)
            more = any('len(' in f_[0] and (((f_[1] is ast.Gt and f_[2] == '1') or (f_[1] is ast.GtE and f_[2] == '2')) and tr or
                                            ((f_[1] is ast.LtE and f_[2] == '1') or (f_[1] is ast.Lt and f_[2] == '2')) and not tr) for f_, tr in facts)
            if near and more and '[1]]' in v_:
                second = True
            # the time landed on is the first requested time inside the step ([0] of the candidates) - the second one ([1]) only where the first has been found to be the
            # present time; never a later one
            idxs_ = re.findall(r'\)\[0\]\[(\d+)\]\]', v_)
            if idxs_ and not ((idxs_[-1] == '0') or (idxs_[-1] == '1' and near and more)):
                wrong_cand = wrong_cand or (v_, e.node)
            # the time landed on is not the present one: no clamping path has established |T - t| < epsilon for the very T it lands on (a step of a rounding error)
            import re as _re
            m_ = _re.match(r'^(?:float\()?(.*)-self\.t\)?$', v_)
            if m_:
                T_ = m_.group(1)
                about = [(f_, tr) for f_, tr in facts if f_[0] in ('abs(%s-self.t)' % T_, 'abs(self.t-%s)' % T_) and f_[2] == 'self._epsilon']
                near_T = any((f_[1] in (ast.Lt, ast.LtE) and tr) or (f_[1] in (ast.Gt, ast.GtE) and not tr) for f_, tr in about)
                far_T = any((f_[1] in (ast.Gt, ast.GtE) and tr) or (f_[1] in (ast.Lt, ast.LtE) and not tr) for f_, tr in about)
                if about and not far_T:          # (near and far at once: a path that cannot be taken; a test on T that establishes neither - `==` - lands only by accident)
                    lands_now = lands_now or (T_, e.node)
        loops_ = [l for l in ast.walk(dn) if isinstance(l, (ast.For, ast.While)) and any(isinstance(a_, ast.Assign) and U(a_.targets[0]) == 'self.dt' for a_ in ast.walk(l))]
        chk.decide(second or bool(loops_), 'clamp', 'a-time-already-reached-is-skipped-for-the-next', node=node_c, file=SOL, func='_dump_output_if_needed',
                   detail_bad='when the first requested time inside the next step is the one the run is at (t is a rounding error short of it) no path goes on to the next requested time: '
                              'a second output time closer than dt is stepped over and its output never written', detail_ok='second candidate taken when the first is the present time')
        chk.decide(wrong_cand is None, 'clamp', 'lands-on-the-first-time-within-reach', node=wrong_cand[1] if wrong_cand else node_c, file=SOL, func='_dump_output_if_needed',
                   detail_bad='a path shortens the step to reach `%s`: not the first requested time inside the step (nor the second where the first is the present time) - the times '
                              'before it are stepped over and their output is never written' % (wrong_cand[0][:120] if wrong_cand else ''), detail_ok='first candidate, or the second when the first is now')
        chk.decide(lands_now is None, 'clamp', 'never-lands-on-the-present-time', node=lands_now[1] if lands_now else node_c, file=SOL, func='_dump_output_if_needed',
                   detail_bad='a path shortens the step to reach `%s` after having found it within epsilon of the present time: the step becomes a rounding error, and the requested times that '
                              'are still ahead are never landed on' % (lands_now[0] if lands_now else ''), detail_ok='the step is shortened only towards a time that is more than epsilon away')
        chk.decide(bad['saved'] is None, 'clamp', 'nominal-step-saved', node=node_c, file=SOL, func='_dump_output_if_needed',
                   detail_bad='the nominal step is not saved in _prev_dt before the step is shortened', detail_ok='self._prev_dt = dt first')


def main(chk):
    chk.explanation = ('CFG rules over Solver.solve: start/end dumps, per-iteration event order (pre callbacks, step(t, dt), post '
                       'callbacks, t += dt, count += 1, dt = _get_timestep(), dump decision) identical on every path and exactly once; '
                       'where self.dt may be assigned; clamp guard; dump decision; nominal step in solver data; loop guard; '
                       '_get_timestep recomputes the step on every path that does not end the run.')
    t = M.py(SOL)
    # helpers a maintainer may have extracted from the methods the rules are written against are inlined again (model.inline_helpers): the vocabulary
    # below is what the rules refer to by name; any other private method called at statement level from these is analysed as part of its caller
    VOCAB = ('_get_timestep', '_dump_output_if_needed', '_compute_timestep', '_damp_timestep', '_get_solver_data', '_get_undamped_timestep', '_post_stage_callback')
    cls_raw = M.find_class(t, 'Solver')
    cls = M.inlined_class(cls_raw, keep=set(VOCAB) | set(n_ for n_ in M.methods(cls_raw) if not n_.startswith('_')))
    solve = M.find_func(cls, 'solve')
    # a loop test that a maintainer moved into a helper returning one expression (`while self._has_steps_left():`) is that expression
    for w_ in [w for w in ast.walk(solve) if isinstance(w, ast.While)]:
        if isinstance(w_.test, ast.Call) and isinstance(w_.test.func, ast.Attribute) and U(w_.test.func.value) == 'self' and not w_.test.args and not w_.test.keywords:
            h_ = M.methods(cls_raw).get(w_.test.func.attr)
            body_ = M.docstring_stripped(h_.body) if h_ is not None else []
            if len(body_) == 1 and isinstance(body_[0], ast.Return) and body_[0].value is not None:
                w_.test = ast.copy_location(body_[0].value, w_.test)
            elif h_ is not None and not any(isinstance(x, (ast.For, ast.While, ast.Try, ast.With)) for x in ast.walk(h_)):
                # a predicate written with branches: the disjunction over its paths of (tests taken) and (value returned); paths returning False drop out
                from verif_static import paths as PT2
                alts, okp = [], True
                for p_ in PT2.enumerate_paths(body_):
                    r_ = p_[-1]
                    if r_.kind != 'return' or r_.node.value is None:
                        okp = False
                        break
                    rv = PT2.resolve(r_.node.value, r_.env)
                    if isinstance(rv, ast.Constant) and rv.value is False:
                        continue
                    conj = []
                    for e_ in p_:
                        if e_.kind == 'cond':
                            t_ = PT2.resolve(e_.node, e_.env)
                            conj.append(t_ if e_.truth else ast.UnaryOp(op=ast.Not(), operand=t_))
                    if not (isinstance(rv, ast.Constant) and rv.value is True):
                        conj.append(rv)
                    alts.append(conj[0] if len(conj) == 1 else ast.BoolOp(op=ast.And(), values=conj) if conj else ast.Constant(value=True))
                if okp and alts:
                    new_t = alts[0] if len(alts) == 1 else ast.BoolOp(op=ast.Or(), values=alts)
                    w_.test = ast.fix_missing_locations(ast.copy_location(ast.parse(ast.unparse(new_t), mode='eval').body, w_.test))
    g = C.build_cfg(solve)
    loops = [n for n in g.nodes if n.kind == 'loop' and isinstance(n.ast, ast.While)]
    main_loop = [n for n in loops if 'self.tf' in U(n.ast.test)]
    if len(main_loop) != 1:
        raise AnalysisError('time loop of Solver.solve not found')
    L = main_loop[0]
    # --- loop guard
    chk.decide(same(L.ast.test, 'self.tf - self.t > self._epsilon and self.count < self.max_steps'), 'loop-guard', 'test', node=L.ast, file=SOL, func='Solver.solve',
               detail_bad='loop runs while %s (documented: tf - t > epsilon and count < max_steps)' % U(L.ast.test), detail_ok=U(L.ast.test))
    attrs = sorted(set(a.attr for a in ast.walk(L.ast.test) if isinstance(a, ast.Attribute)))
    chk.decide(attrs == ['_epsilon', 'count', 'max_steps', 't', 'tf'], 'loop-guard', 'reads', node=L.ast, file=SOL, func='Solver.solve',
               detail_bad='guard reads %s' % attrs, detail_ok=str(attrs))
    # --- before / after the loop
    def first(pred):
        r = [n.id for n in g.nodes if pred(n)]
        return r
    dumps = first(lambda n: n.ast is not None and isinstance(n.ast, ast.Expr) and M.call_name(n.ast.value) == 'self.dump_output')
    init_acc = first(lambda n: stmt_calls(n, 'self.integrator.initial_acceleration'))
    dt0 = first(lambda n: n.ast is not None and isinstance(n.ast, ast.Assign) and U(n.ast.targets[0]) == 'self.dt'
                and M.call_name(n.ast.value) == 'self._get_timestep' and not any(n.ast is x for x in ast.walk(L.ast)))
    pre_d = [d for d in dumps if g.dominates(d, L.id) and not any(g.nodes[d].ast is x for x in ast.walk(L.ast))]
    post_d = [d for d in dumps if d in g.reachable(L.id) and not any(g.nodes[d].ast is x for x in ast.walk(L.ast))]
    ok = bool(pre_d) and bool(init_acc) and bool(dt0) and g.dominates(pre_d[0], init_acc[0]) and g.dominates(init_acc[0], dt0[0]) and g.dominates(dt0[0], L.id)
    chk.decide(ok, 'start-and-end', 'initial-dump<initial-acceleration<first-dt', node=solve, file=SOL, func='Solver.solve',
               detail_bad='before the loop: dump_output(), initial_acceleration(t, dt), dt = _get_timestep() must happen in this order',
               detail_ok='dump_output -> initial_acceleration -> self.dt = _get_timestep()')
    ok = bool(post_d) and g.must_pass(L.id, g.exit, post_d) and all(not isinstance(x, (ast.Break, ast.Return)) for x in ast.walk(L.ast))
    chk.decide(ok, 'start-and-end', 'final-dump-on-every-exit', node=solve, file=SOL, func='Solver.solve',
               detail_bad='the final dump_output() is not reached on every exit of the time loop', detail_ok='dump_output() after the loop, loop has no break/return')
    if init_acc:
        c = [c for c in M.calls(g.nodes[init_acc[0]].ast) if M.call_name(c) == 'self.integrator.initial_acceleration'][0]
        chk.decide([compact(a) for a in c.args] == ['self.t', 'self.dt'], 'start-and-end', 'initial-acceleration-arguments', node=c, file=SOL,
                   func='Solver.solve', detail_bad=U(c), detail_ok='(self.t, self.dt)')
    # --- per-iteration events
    def event(n):
        a = n.ast
        if a is None or n.kind in ('test', 'loop', 'join'):
            return None
        if isinstance(a, ast.Expr) and isinstance(a.value, ast.Call):
            nm = M.call_name(a.value)
            if nm == 'callback':
                lp = M.enclosing(a, (ast.For,))
                if lp is not None and 'pre_step_callbacks' in U(lp.iter):
                    return 'pre'
                if lp is not None and 'post_step_callbacks' in U(lp.iter):
                    return 'post'
            if nm == 'self.integrator.step':
                return 'step'
            if nm == 'self._dump_output_if_needed':
                return 'dumpif'
            if nm == 'self.dump_output':
                return 'dump'
        if isinstance(a, ast.AugAssign):
            if U(a.target) == 'self.t':
                return 't+=' + compact(a.value) if isinstance(a.op, ast.Add) else 't?'
            if U(a.target) == 'self.count':
                return 'count+=' + compact(a.value) if isinstance(a.op, ast.Add) else 'count?'
            if U(a.target) == 'self.dt':
                return 'dt?'
        if isinstance(a, ast.Assign):
            tg = [U(x) for x in a.targets]
            if 'self._epsilon' in tg:
                return 'eps' if N.same(a.value, 'EPSILON*self.tf*self.count') else 'eps?'
            if 'self.dt' in tg:
                return 'dt=' + (M.call_name(a.value) or '?')
            if 'self.t' in tg:
                return 't?'
            if 'self.count' in tg:
                return 'count?'
        return None
    body_first = [s for s in g.succ[L.id] if any(g.nodes[s].ast is x for x in ast.walk(L.ast)) and g.nodes[s].ast is not L.ast]
    seqs = set()
    for bf in body_first:
        seqs |= g.event_sequences(bf, [L.id], event)
    norm = set()
    for s in seqs:
        s = tuple(e for e in s if e != '<cut>')
        norm.add(s)
    core = ('step', 't+=self.dt', 'count+=1', 'dt=self._get_timestep', 'dumpif')
    ok = bool(norm)
    bad = []
    for s in norm:
        stripped = tuple(e for e in s if e not in ('pre', 'post', 'eps'))
        # the time and the iteration counter are advanced independently of each other: either order
        order_ok = len(stripped) == len(core) and stripped[0] == core[0] and set(stripped[1:3]) == set(core[1:3]) and stripped[3:] == core[3:]
        # pre callbacks only before step, post only between step and the time update
        if 'pre' in s and s.index('pre') > s.index('step') if 'step' in s else False:
            order_ok = False
        if 'post' in s and 'step' in s and not (s.index('step') < s.index('post') < s.index('t+=self.dt') if 't+=self.dt' in s else False):
            order_ok = False
        if s.count('pre') > 1 or s.count('post') > 1:
            order_ok = False
        # the tolerance grows with the number of steps taken: it is recomputed from the count just incremented, before the next step and the dump decision use it
        if s.count('eps') != 1 or 'count+=1' not in s or not (s.index('count+=1') < s.index('eps') < (s.index('dt=self._get_timestep') if 'dt=self._get_timestep' in s else -1)):
            order_ok = False
        if not order_ok:
            ok = False
            bad.append(s)
    chk.decide(ok, 'iteration-order', 'every-path', node=L.ast, file=SOL, func='Solver.solve',
               detail_bad='a path through one iteration performs %s; every path must perform [pre callbacks] step [post callbacks] t += dt, '
                          'count += 1, epsilon = EPSILON*tf*count, dt = _get_timestep(), _dump_output_if_needed() exactly once in this order' % (list(bad[0]) if bad else None),
               detail_ok='%d distinct paths, all: [pre] %s' % (len(norm), ' -> '.join(core)))
    chk.unit('iteration paths', len(norm))
    # callbacks loops: each registered callback called with the solver
    for nm in ('pre_step_callbacks', 'post_step_callbacks'):
        lp = [l for l in ast.walk(L.ast) if isinstance(l, ast.For) and compact(l.iter) == 'self.' + nm]
        ok = len(lp) == 1 and len(lp[0].body) == 1 and isinstance(lp[0].target, ast.Name) and compact(lp[0].body[0]) == '%s(self)' % lp[0].target.id and \
            not any(isinstance(x, (ast.Break, ast.Continue)) for x in ast.walk(lp[0]))
        chk.decide(ok, 'iteration-order', nm + ':each-once', node=lp[0] if lp else L.ast, file=SOL, func='Solver.solve',
                   detail_bad='%s are not each called exactly once per step as callback(self)' % nm, detail_ok='for callback in self.%s: callback(self)' % nm)
    # ... and whatever guards such a loop is decided from the list as it is in this iteration (callbacks are registered while solve() runs - by the command
    # handler, by other callbacks): the guard, with the locals of the iteration substituted, reads nothing computed before the time loop, and is true for a
    # list of one and of two callbacks
    import types
    in_loop = set(id(x) for x in ast.walk(L.ast))
    outer_locals = set(t.id for a in ast.walk(solve) if isinstance(a, (ast.Assign, ast.AugAssign, ast.AnnAssign)) and id(a) not in in_loop
                       for t0 in (a.targets if isinstance(a, ast.Assign) else [a.target]) for t in ast.walk(t0) if isinstance(t, ast.Name) and isinstance(t.ctx, ast.Store))
    iter_defs = N.local_defs(L.ast.body)
    for nm in ('pre_step_callbacks', 'post_step_callbacks'):
        for lp in [l for l in ast.walk(L.ast) if isinstance(l, ast.For) and compact(l.iter) == 'self.' + nm]:
            cur, guards = lp, []
            while cur is not L.ast:
                par = M.enclosing(cur, (ast.If, ast.While, ast.For, ast.With, ast.Try))
                if par is None or par is L.ast:
                    break
                if isinstance(par, ast.If):
                    guards.append((par.test, any(cur is x for b in par.body for x in ast.walk(b))))
                cur = par
            ok, why, und = True, '', False
            for test, pol in guards:
                t2 = N.inline(test, iter_defs)
                stale = sorted(x.id for x in ast.walk(t2) if isinstance(x, ast.Name) and x.id in outer_locals and x.id not in iter_defs)
                if stale:
                    ok, why = False, 'the guard `%s` reads %s, computed before the time loop' % (U(test), ', '.join(stale))
                    break
                others = [U(x) for x in ast.walk(t2) if isinstance(x, ast.Attribute) and isinstance(x.value, ast.Name) and x.value.id == 'self' and x.attr != nm]
                free = [x.id for x in ast.walk(t2) if isinstance(x, ast.Name) and x.id not in ('self', 'len', 'bool', 'list', 'any', 'all')]
                if others or free:
                    und, why = True, 'the guard `%s` depends on %s' % (U(test), ', '.join(others + free))
                    break
                for lst in ([len], [len, abs]):
                    try:
                        val = bool(eval(compile(ast.fix_missing_locations(ast.Expression(body=t2)), '<guard>', 'eval'),
                                        {'__builtins__': {}, 'len': len, 'bool': bool, 'list': list, 'any': any, 'all': all, 'self': types.SimpleNamespace(**{nm: lst})}))
                    except Exception as ex:
                        und, why = True, 'the guard `%s` could not be evaluated on a model list: %s' % (U(test), ex)
                        break
                    if val != pol:
                        ok, why = False, 'the guard `%s` skips the loop for a list of %d callbacks' % (U(test), len(lst))
                        break
                if not ok or und:
                    break
            if und:
                chk.undecided('iteration-order', nm + ':guard-looks-at-the-live-list', node=lp, file=SOL, func='Solver.solve', detail=why)
            else:
                chk.decide(ok, 'iteration-order', nm + ':guard-looks-at-the-live-list', node=lp, file=SOL, func='Solver.solve',
                           detail_bad='callbacks registered while solve() runs are not called: ' + why,
                           detail_ok='%d guard(s) around the loop, each true for a non-empty self.%s as it is in this iteration' % (len(guards), nm))
    st = [c for c in M.calls(L.ast) if M.call_name(c) == 'self.integrator.step']
    chk.decide(len(st) == 1 and [compact(a) for a in st[0].args] == ['self.t', 'self.dt'], 'iteration-order', 'step-arguments', node=st[0] if st else L.ast,
               file=SOL, func='Solver.solve', detail_bad='integrator.step(%s)' % (', '.join(U(a) for a in st[0].args) if st else ''),
               detail_ok='step(self.t, self.dt): the attributes later used for the increment')
    # --- where self.dt may be assigned
    allowed = {'__init__', 'set_time_step', 'solve', '_get_timestep', '_dump_output_if_needed'}
    writers = {}
    for name, fn in M.methods(cls).items():
        for a in ast.walk(fn):
            tg = []
            if isinstance(a, ast.Assign):
                tg = [U(x) for x in a.targets]
            elif isinstance(a, ast.AugAssign):
                tg = [U(a.target)]
            if 'self.dt' in tg:
                writers.setdefault(name, []).append(a)
    # only code that can run during solve() is constrained (restart helpers such as load_output are not)
    reach = set()
    todo = ['solve']
    meths = M.methods(cls)
    while todo:
        m = todo.pop()
        if m in reach or m not in meths:
            continue
        reach.add(m)
        for c in M.calls(meths[m]):
            nm = M.call_name(c) or ''
            if nm.startswith('self.') and nm.count('.') == 1:
                todo.append(nm[5:])
    chk.unit('methods reachable from solve', sorted(reach))
    for name, sites in sorted(writers.items()):
        if name not in reach and name not in allowed:
            continue
        chk.decide(name in allowed, 'dt-writers', name, node=sites[0], file=SOL, func='Solver.' + name,
                   detail_bad='self.dt is assigned in %s; only the setter, solve (= _get_timestep()), the _prev_dt restore and the '
                              'land-on-output-time clamp may change the step' % name, detail_ok='allowed writer')
    chk.floor('writers of self.dt', len(writers), 4)
    chk.floor('methods reachable from solve', len(reach), 10)
    rule_clamp(chk, cls)
    # "is this requested time the time we are at" is judged with the one absolute tolerance self._epsilon everywhere - the vectorised dump test, the choice of the next time to
    # land on and the too-small-step test must agree, otherwise a time is neither dumped now nor landed on later.  A closeness helper of the library (math.isclose,
    # numpy.isclose / allclose) brings its own default *relative* tolerance (1e-9 resp. 1e-5 of t), so none is used in the stepping logic unless that is switched off
    n_cmp, loose = 0, []
    for mname, mfn in sorted(M.methods(cls_raw).items()):
        for c_ in M.calls(mfn):
            nm_ = (M.call_name(c_) or '').split('.')[-1]
            if nm_ in ('isclose', 'allclose'):
                kw_ = dict((k.arg, k.value) for k in c_.keywords)
                rel_ = kw_.get('rel_tol', kw_.get('rtol'))
                if not (isinstance(rel_, ast.Constant) and rel_.value == 0):
                    loose.append((mname, c_))
        for x in ast.walk(mfn):
            if isinstance(x, ast.Compare) and '_epsilon' in U(x):
                n_cmp += 1
    chk.floor('comparisons against self._epsilon in Solver', n_cmp, 5)
    chk.decide(not loose, 'dump-decision', 'one-absolute-tolerance', node=loose[0][1] if loose else cls_raw, file=SOL, func='Solver.%s' % (loose[0][0] if loose else 'solve'),
               detail_bad='`%s` compares times with a library closeness test whose default relative tolerance is on top of the absolute one: a requested time within 1e-9*t (but more than '
                          'epsilon) of the current time is taken for "now" by this test and for "still to come" by the epsilon tests next to it - it is neither written now nor landed on' % (
                              U(loose[0][1])[:70] if loose else ''),
               detail_ok='%d comparisons against self._epsilon, no library closeness test with a relative tolerance' % n_cmp)
    from verif_static import paths as PT
    dn = M.find_func(cls, '_dump_output_if_needed')
    dpaths = PT.enumerate_paths(M.docstring_stripped(dn.body))
    # --- dump decision, per feasible path: output is written exactly when the iteration count is a multiple of pfreq or a requested time has been reached
    AT_TIME = ('numpy.any(numpy.abs(self.output_at_times - self.t) < self._epsilon)', 'numpy.any(numpy.abs(self.t - self.output_at_times) < self._epsilon)')
    PFREQ = ('self.count % self.pfreq == 0',)
    ENDT = ('abs(self.t - self.tf) < self._epsilon', 'abs(self.tf - self.t) < self._epsilon')
    bad_pf = bad_at = bad_once = bad_early = None
    n_pf = n_at = 0
    # a truth table over the two facts the decision rests on - PF: the iteration count is a multiple of pfreq, AT: a requested time has been reached - whatever way the
    # method combines them (an `if` that sets a flag, `dump = dump or bool(any(...))`, one test, nested tests): on every path that is possible under an assignment of
    # (PF, AT) output is written exactly when PF or AT holds
    atoms = PT.Atoms({'PF': (list(PFREQ), []), 'AT': (list(AT_TIME), []), 'END': (list(ENDT), [])})
    live = []
    for p_ in dpaths:
        if p_[-1].kind == 'raise':
            continue
        ended = PT.took(p_, True, *ENDT) is not None
        dumps = [i for i, c, cal, env in PT.calls_on(p_) if cal == 'self.dump_output']
        if p_[-1].kind == 'return' and not ended:
            bad_early = bad_early or p_[-1].node
        if ended:
            if dumps:
                bad_early = bad_early or p_[-1].node
            continue
        if len(dumps) > 1:
            bad_once = bad_once or p_[dumps[1]].node
        live.append((p_, bool(dumps)))
    for pf in (True, False):
        for at in (True, False):
            # (without requested times AT is false by definition: the paths that skip the whole block are possible only then)
            poss = [(p_, d_) for p_, d_ in live if atoms.possible(p_, {'PF': pf, 'AT': at, 'END': False}) and
                    not (at and PT.took(p_, False, 'len(self.output_at_times) > 0', 'len(output_at_times) > 0') is not None)]
            for p_, d_ in poss:
                if at:
                    n_at += 1
                    if not d_:
                        bad_at = bad_at or [repr(e)[:70] for e in p_ if e.kind == 'cond']
                else:
                    n_pf += 1
                    if d_ != pf:
                        bad_pf = bad_pf or [repr(e)[:70] for e in p_ if e.kind == 'cond']
    chk.decide(n_pf > 0 and bad_pf is None, 'dump-decision', 'every-pfreq-th-iteration', node=dn, file=SOL, func='_dump_output_if_needed',
               detail_bad='away from the requested times output is not written exactly when count %% pfreq == 0 (path: %s)' % bad_pf, detail_ok='count % pfreq == 0')
    chk.decide(n_at > 0 and bad_at is None, 'dump-decision', 'at-requested-times', node=dn, file=SOL, func='_dump_output_if_needed',
               detail_bad='a path on which a requested output time has been reached (|tdiff| < epsilon) does not write output (path: %s)' % bad_at, detail_ok='any(|tdiff| < epsilon) -> dump')
    chk.decide(bad_once is None, 'dump-decision', 'decision-followed-by-dump', node=bad_once or dn, file=SOL, func='_dump_output_if_needed',
               detail_bad='dump_output() is called more than once on a path', detail_ok='at most one dump per call')
    chk.decide(bad_early is None and any(PT.took(p_, True, *ENDT) is not None for p_ in dpaths), 'dump-decision', 'end-of-run-left-to-final-dump',
               node=bad_early or dn, file=SOL, func='_dump_output_if_needed', detail_bad='the method returns early / dumps other than "nothing at t == tf" (the final dump follows the loop)',
               detail_ok='only at t == tf (the final dump follows the loop)')
    # --- solver data: nominal step
    sd = M.find_func(cls, '_get_solver_data')
    sp_ = PT.enumerate_paths(M.docstring_stripped(sd.body))
    ok = bool(sp_)
    seen_pending = seen_plain = False
    for p_ in sp_:
        r_ = p_[-1]
        dv = None
        if r_.kind == 'return' and isinstance(r_.node.value, ast.Dict):
            for k_, v_ in zip(r_.node.value.keys, r_.node.value.values):
                if M.const_str(k_) == 'dt':
                    dv = PT.resolve(v_, r_.env)
        pending = PT.took(p_, True, 'self._prev_dt is not None') is not None or PT.took(p_, False, 'self._prev_dt is None') is not None
        if pending:
            seen_pending = True
            ok = ok and dv is not None and same(dv, 'self._prev_dt/self._damping_factor')
        else:
            seen_plain = True
            # (the undamped step, by its helper or written out)
            ok = ok and dv is not None and (compact(dv) == 'self._get_undamped_timestep()' or same(dv, 'self.dt/self._damping_factor'))
    ok = ok and seen_pending and seen_plain
    chk.decide(ok, 'nominal-step-in-output', 'recorded-step-is-the-nominal-one', node=sd, file=SOL, func='_get_solver_data',
               detail_bad='the step recorded with an output is not the nominal one: with a shortened step pending it must be _prev_dt/_damping_factor, otherwise _get_undamped_timestep()',
               detail_ok='_prev_dt/_damping_factor while a shortened step is pending, the undamped step otherwise')
    rets = [r for r in ast.walk(sd) if isinstance(r, ast.Return)]
    keys = set(M.const_str(k) for r in rets if isinstance(r.value, ast.Dict) for k in r.value.keys)
    chk.decide(keys == {'dt', 't', 'count'}, 'nominal-step-in-output', 'keys', node=sd, file=SOL, func='_get_solver_data', detail_bad=str(keys), detail_ok=str(sorted(keys)))
    und = M.find_func(cls, '_get_undamped_timestep')
    chk.decide([compact(r.value) for r in ast.walk(und) if isinstance(r, ast.Return)] == ['self.dt/self._damping_factor'], 'nominal-step-in-output',
               'undamped', node=und, file=SOL, func='_get_undamped_timestep', detail_bad='undamped step formula changed', detail_ok='self.dt/self._damping_factor')
    # --- _get_timestep: decided per feasible path (helpers inlined, path-local names substituted)
    gt = M.find_func(cls, '_get_timestep')
    tpaths = PT.enumerate_paths(M.docstring_stripped(gt.body))
    chk.unit('paths through _get_timestep', len(tpaths))
    END = ('abs(self.tf - self.t) < self._epsilon', 'abs(self.t - self.tf) < self._epsilon')
    cont = [p_ for p_ in tpaths if PT.took(p_, True, *END) is None and p_[-1].kind in ('return', 'end')]
    endp = [p_ for p_ in tpaths if PT.took(p_, True, *END) is not None]

    def calls_in(e, name):
        return e.kind in ('stmt', 'return') and any(M.call_name(c) == name for c in M.calls(e.node))
    bad_rec = bad_rest = bad_land = None
    any_restore = False
    PEND = PT.Atoms({'P': (['self._prev_dt is not None'], ['self._prev_dt is None']),
                     'D': (['abs(self._prev_dt - self.dt) > self._epsilon', 'abs(self.dt - self._prev_dt) > self._epsilon'], ['abs(self._prev_dt - self.dt) <= self._epsilon', 'abs(self.dt - self._prev_dt) <= self._epsilon',
                                                                                                                       'abs(self._prev_dt - self.dt) < self._epsilon', 'abs(self.dt - self._prev_dt) < self._epsilon'])})
    D_ = 'self._damp_timestep(self._compute_timestep())'
    for p_ in cont:
        ic = PT.stmt_index(p_, lambda e: calls_in(e, 'self._compute_timestep'))
        idp = PT.stmt_index(p_, lambda e: calls_in(e, 'self._damp_timestep'))
        if ic is None or idp is None or idp < ic:
            bad_rec = bad_rec or p_
            continue
        # restore of the nominal step
        rs = [i for i, e in enumerate(p_) if e.kind == 'stmt' and isinstance(e.node, ast.Assign) and U(e.node.targets[0]) == 'self.dt']
        for i in rs:
            any_restore = True
            e = p_[i]
            okr = compact(PT.resolve(e.node.value, e.env)) == 'self._prev_dt' and i < ic and \
                all(m_['P'] for m_ in PEND.models(p_[:i])) and \
                any(x.kind == 'stmt' and isinstance(x.node, ast.Assign) and U(x.node.targets[0]) == 'self._prev_dt' and compact(x.node.value) == 'None' for x in p_[i:ic])
            if not okr:
                bad_rest = bad_rest or e.node
        # a pending nominal step (saved when a step was shortened) is restored on every path that finds one
        # (a saved step that equals the current one needs no restoring)
        ms_ = PEND.models(p_[:ic])
        if ms_ and any(m_['P'] and m_['D'] for m_ in ms_) and not rs:          # (a path that is possible with a pending, different step and does not restore it)
            bad_rest = bad_rest or gt
        # landing on tf: after damping, `t + dt > tf - eps` is decided on the damped step; when it holds the returned value is tf - t, otherwise the damped step itself
        ret = p_[-1]
        rv = ret.node.value if ret.kind == 'return' else None
        if rv is None:
            bad_land = bad_land or ret.node
            continue
        rres = PT.resolve(rv, ret.env)
        lands_t = PT.took(p_, True, 'self.t + %s > self.tf - self._epsilon' % D_, 'self.t + %s >= self.tf - self._epsilon' % D_)
        lands_f = PT.took(p_, False, 'self.t + %s > self.tf - self._epsilon' % D_, 'self.t + %s >= self.tf - self._epsilon' % D_)
        if lands_t is not None:
            if not same(rres, 'self.tf - self.t'):
                bad_land = bad_land or ret.node
        elif lands_f is not None:
            if compact(rres) != D_:
                bad_land = bad_land or ret.node
        else:
            bad_land = bad_land or ret.node
    chk.decide(bool(cont) and bad_rec is None, 'next-step', 'always-recomputed', node=gt, file=SOL, func='_get_timestep',
               detail_bad='a path returns the next step without calling _compute_timestep() and then _damp_timestep(): after a step shortened to '
                          'land on an output time a stale step would be reused although the stability criteria changed (path: %s)' % ([repr(e)[:60] for e in bad_rec] if bad_rec else 'none continues'),
               detail_ok='every continuing path (%d): _compute_timestep() then _damp_timestep()' % len(cont))
    chk.decide(any_restore and bad_rest is None, 'next-step', 'nominal-step-restored-before-recomputing', node=bad_rest or gt, file=SOL, func='_get_timestep',
               detail_bad='the saved nominal step is not restored (self.dt = self._prev_dt under `_prev_dt is not None`) and cleared before the next step is computed',
               detail_ok='self.dt = self._prev_dt; _prev_dt = None; then compute')
    chk.decide(bool(cont) and bad_land is None, 'next-step', 'lands-on-tf', node=bad_land or gt, file=SOL, func='_get_timestep',
               detail_bad='the last step is not shortened to tf - t exactly when t + dt would pass tf - epsilon (tested after damping, applied to the returned value)', detail_ok='dt = tf - t')
    chk.decide(bool(endp) and all(p_[-1].kind == 'return' and p_[-1].node.value is not None and compact(PT.resolve(p_[-1].node.value, p_[-1].env)) == 'self.dt' for p_ in endp),
               'next-step', 'landing-applied-to-returned-value', node=gt, file=SOL, func='_get_timestep',
               detail_bad='at the end of the run (|tf - t| < epsilon) the current step is not returned unchanged', detail_ok='at t == tf the step is returned as it is')
    # the stability criteria are consulted for every step of an adaptive run: whether compute_time_step is called may depend on the
    # configuration only, never on state that changes while solve() runs (a remembered "no constraint last time")
    ct = M.find_func(cls, '_compute_timestep')
    cts = [c for c in M.calls(ct) if (M.call_name(c) or '').endswith('integrator.compute_time_step')]
    if not cts:
        chk.violated('next-step', 'criteria-consulted-every-step', node=ct, file=SOL, func='_compute_timestep', detail='_compute_timestep never asks the integrator for the stable step')
    else:
        state = {}
        for mname in reach:
            if mname in ('__init__',):
                continue
            for a in ast.walk(meths[mname]):
                tgs = a.targets if isinstance(a, ast.Assign) else ([a.target] if isinstance(a, (ast.AugAssign, ast.AnnAssign)) else [])
                for tg in tgs:
                    if isinstance(tg, ast.Attribute) and U(tg.value) == 'self':
                        state.setdefault(tg.attr, mname)
        reads = set()
        gi = M.enclosing(cts[0], (ast.If, ast.While, ast.IfExp))
        while gi is not None:
            reads |= set(x.attr for x in ast.walk(gi.test) if isinstance(x, ast.Attribute) and U(x.value) == 'self')
            gi = M.enclosing(gi, (ast.If, ast.While, ast.IfExp))
        early = [r for r in ast.walk(ct) if isinstance(r, ast.Return) and r.lineno < cts[0].lineno]
        for r in early:
            gi = M.enclosing(r, (ast.If,))
            if gi is not None:
                reads |= set(x.attr for x in ast.walk(gi.test) if isinstance(x, ast.Attribute) and U(x.value) == 'self')
        sticky = sorted(a for a in reads if a in state)
        chk.decide(not sticky, 'next-step', 'criteria-consulted-every-step', node=cts[0], file=SOL, func='_compute_timestep',
                   detail_bad='whether integrator.compute_time_step is called depends on self.%s, which is assigned in %s while solve() runs: once it flips, later steps no longer '
                              'honour the stability criteria' % (sticky[0] if sticky else '', state.get(sticky[0]) if sticky else ''),
                   detail_ok='guarded by configuration only (%s)' % sorted(reads))
    dmp = M.find_func(cls, '_damp_timestep')
    # per feasible path (locals substituted): the value returned is dt times the factor this call stores in self._damping_factor; that factor is the ramp while
    # count < n_damp (and n_damp > 0) and exactly 1.0 otherwise
    from verif_static import paths as PT_
    dpar = [a_ for a_ in M.arg_names(dmp) if a_ != 'self'][0]
    mpaths = [p_ for p_ in PT_.enumerate_paths(M.docstring_stripped(dmp.body)) if p_[-1].kind == 'return']
    okd, whyd, kinds = bool(mpaths), '', set()
    DAMP = PT_.Atoms({'A': (['self.count < self.n_damp'], ['self.count >= self.n_damp']), 'B': (['self.n_damp > 0'], ['self.n_damp <= 0'])})
    for p_ in mpaths:
        sto = [v for i, tg, v in PT_.stores_on(p_) if tg == 'self._damping_factor']
        rv = PT_.resolve(p_[-1].node.value, p_[-1].env) if p_[-1].node.value is not None else None
        if len(sto) != 1 or rv is None:
            okd, whyd = False, 'a path stores the factor %d times' % len(sto)
            break
        fac = sto[0]
        # the stored factor may be read back through the attribute
        if not (N.same(rv, '%s*(%s)' % (dpar, U(fac))) or N.same(rv, '%s*self._damping_factor' % dpar)):
            okd, whyd = False, 'a path returns %s with the factor %s stored' % (U(rv), U(fac))
            break
        # the path is a ramp path when it can only be taken with count < n_damp and n_damp > 0 (truth table over the two comparisons: any spelling of the test)
        ms_ = DAMP.models(p_)
        ramp = bool(ms_) and all(m_['A'] and m_['B'] for m_ in ms_)
        mixed = any(m_['A'] and m_['B'] for m_ in ms_) and not ramp
        if mixed:
            okd, whyd = False, 'a path is taken both while damping and after it'
            break
        one = isinstance(fac, ast.Constant) and fac.value == 1
        kinds.add('ramp' if ramp else 'one')
        if ramp == one:
            okd, whyd = False, 'the factor is %s on a path where `count < n_damp and n_damp > 0` is %s' % (U(fac), ramp)
            break
        if ramp and not N.same(fac, '0.5*(numpy.sin(numpy.pi*(-0.5 + (self.count+1)/float(self.n_damp))) + 1.0)', '0.5*(numpy.sin(numpy.pi*(-0.5 + (self.count+1)/self.n_damp)) + 1.0)'):
            okd, whyd = False, 'the ramp is %s' % U(fac)
            break
    okd = okd and kinds == set(['ramp', 'one'])
    chk.decide(okd, 'next-step', 'damping', node=dmp,
               file=SOL, func='_damp_timestep', detail_bad='damped step is not dt * (the factor stored in _damping_factor: the sine ramp while count < n_damp, 1.0 afterwards): %s' % whyd,
               detail_ok='dt*factor; ramp while count < n_damp else 1.0 (%d paths)' % len(mpaths))
    # what the loop is governed by is what the user set: the setters of the quantities the loop guard and the step computation read store their argument as given (a
    # setter that "normalises" - 0 steps to no limit, a clipped final time - makes solve() run a schedule nobody asked for); conversions that keep the value are allowed
    GOVERN = {'set_max_steps': 'max_steps', 'set_final_time': 'tf', 'set_time_step': 'dt', 'set_n_damp': 'n_damp', 'set_print_freq': 'pfreq', 'set_cfl': 'cfl',
              'set_adaptive_timestep': 'adaptive_timestep'}
    raw_meths = M.methods(M.find_class(t, 'Solver'))
    nset = 0
    for sname, attr in sorted(GOVERN.items()):
        sf = raw_meths.get(sname)
        if sf is None:
            continue
        nset += 1
        par = [a.arg for a in sf.args.args if a.arg != 'self']
        sto = [a for a in ast.walk(sf) if isinstance(a, ast.Assign) and any(U(x) == 'self.' + attr for x in a.targets)]
        ld_s = N.local_defs(sf.body)
        oks = len(sto) == 1 and len(par) >= 1 and M.enclosing(sto[0], (ast.If, ast.For, ast.While, ast.Try)) is None and \
            compact(N.inline(sto[0].value, ld_s)) in (par[0], 'float(%s)' % par[0], 'int(%s)' % par[0], 'bool(%s)' % par[0])
        chk.decide(oks, 'loop-guard', 'setter-stores-what-it-is-given:' + sname, node=sto[0] if sto else sf, file=SOL, func='Solver.' + sname,
                   detail_bad='%s stores %s in self.%s: the value that governs the time loop is not the one the caller set (e.g. a limit of 0 steps turned into no limit)' % (
                       sname, U(sto[0].value) if sto else 'nothing', attr), detail_ok='self.%s = %s' % (attr, par[0] if par else '?'))
    chk.floor('setters of the quantities governing the loop', nset, 5)
    # epsilon bookkeeping
    eps = [compact(a.value) for a in ast.walk(solve) if isinstance(a, ast.Assign) and U(a.targets[0]) == 'self._epsilon']
    chk.decide(eps == ['EPSILON*self.tf', 'EPSILON*self.tf*self.count'], 'loop-guard', 'epsilon', node=solve, file=SOL, func='Solver.solve',
               detail_bad='epsilon assignments %s' % eps, detail_ok=str(eps))
    # the step the loop advances by is positive: the integrator reports "no usable constraint" (None -> the fixed step) rather than a zero or negative step,
    # with which t never reaches tf (rules shared with C19)
    import importlib.util
    spec19 = importlib.util.spec_from_file_location('c19mod', os.path.join(os.path.dirname(os.path.abspath(__file__)), 'c19.py'))
    c19 = importlib.util.module_from_spec(spec19)
    spec19.loader.exec_module(c19)
    c19.rule_provenance(chk, M.py(c19.INT))
    c19.rule_fallback(chk, with_clamp=False)
    # the smallest smoothing length the criteria are scaled by is that of the arrays that hold particles (model run shared with C19)
    c19.rule_hmin_model(chk, M.py(c19.INT))
    # the requested output times are kept as given: what is stored must not depend on the final time known when they are set (set_final_time may raise it later)
    cls_ = M.find_class(t, 'Solver')
    writers = []
    for fn_ in [f for f in cls_.body if isinstance(f, ast.FunctionDef)]:
        for a in ast.walk(fn_):
            if isinstance(a, ast.Assign) and any(U(x) == 'self.output_at_times' for x in a.targets):
                writers.append((fn_, a))
    for fn_, a in writers:
        # names the stored value is computed from, through the locals of the method
        defs = {}
        for b in ast.walk(fn_):
            if isinstance(b, ast.Assign) and isinstance(b.targets[0], ast.Name):
                defs.setdefault(b.targets[0].id, []).append(b.value)
        seen, todo, reads = set(), [a.value], set()
        while todo:
            e = todo.pop()
            for n in ast.walk(e):
                if isinstance(n, ast.Attribute) and U(n).startswith('self.'):
                    reads.add(U(n))
                if isinstance(n, ast.Name) and n.id in defs and n.id not in seen:
                    seen.add(n.id)
                    todo.extend(defs[n.id])
        bad = sorted(r for r in reads if r in ('self.tf', 'self.t', 'self.dt', 'self.count'))
        chk.decide(not bad, 'requested-output-times-kept', fn_.name, node=a, file=SOL, func='Solver.' + fn_.name,
                   detail_bad='the stored output times are computed from %s as it is when the times are set: times beyond it are dropped for good although set_final_time() / the run may move it later' % bad,
                   detail_ok='stored as given (%s)' % compact(a.value)[:60])
    chk.floor('writers of output_at_times', len(writers), 2)
    chk.assume('termination with t == tf, strict increase of t and absence of near-zero steps depend on floating-point rounding and are not decided')


if __name__ == '__main__':
    run_check('C10', main)
