"""Triage only (not a check): render the evaluator source for a group that has sub-groups AND a
condition AND post/update_nnps, and show that `post()` and the NNPS update are emitted OUTSIDE the
`if <condition>:` block (they run although the condition is false).
Run: /venv/bin/python triage/c03_subgroup_condition.py   (TRIAGE_SRC=<tree> to look at another tree)"""
import _overlay
from pysph.base.utils import get_particle_array
from pysph.base.kernels import CubicSpline
from pysph.sph.equation import Group, Equation
from pysph.sph.acceleration_eval import AccelerationEval
from pysph.sph.acceleration_eval_cython_helper import AccelerationEvalCythonHelper


class E(Equation):
    def initialize(self, d_idx, d_au):
        d_au[d_idx] = 1.0


pa = get_particle_array(name='f', x=[0., 1.], au=[0., 0.])
g = Group(equations=[Group(equations=[E(dest='f', sources=None)])],
          condition=lambda t, dt: False, post=lambda: None, update_nnps=True)
a = AccelerationEval([pa], [g], CubicSpline(dim=1))
code = AccelerationEvalCythonHelper(a).get_code()
i = code.index('cpdef compute')
body = code[i:]
lines = [l for l in body.splitlines() if l.strip() and not l.strip().startswith('#')]
cond = [k for k, l in enumerate(lines) if '.condition(t, dt)' in l][0]
ind = len(lines[cond]) - len(lines[cond].lstrip())
outside = []
for l in lines[cond + 1:]:
    if len(l) - len(l.lstrip()) <= ind:
        outside.append(l.strip())
print('\n'.join(lines[cond:cond + 3]) + '\n   ...')
bad = [l for l in outside if 'nnps.update' in l or '.post()' in l or 'profile_ctx' in l]
print('statements at or left of the `if <condition>` indentation (i.e. not skipped by a false condition):')
for l in outside[:8]:
    print('   ', l)
print('C03:', 'DEFECT: post()/update_nnps of a conditional group with sub-groups run unconditionally' if bad else 'ok')
