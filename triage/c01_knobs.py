"""Triage only (not a check): compare every CPU NNPS class, with its tuning knobs, against brute force."""
import _overlay
import sys, itertools
import numpy as np
from pysph.base.utils import get_particle_array
from pysph.base import nnps as N
from cyarray.api import UIntArray
rng = np.random.default_rng(3)
n = 600
def arrays(dim):
    out = []
    for k, m in enumerate((n, n // 3)):
        x = rng.random(m); y = rng.random(m) if dim > 1 else np.zeros(m); z = rng.random(m) if dim > 2 else np.zeros(m)
        h = 0.05 * (1 + 2 * rng.random(m))
        out.append(get_particle_array(name='a%d' % k, x=x, y=y, z=z, h=h))
    return out
def brute(pas, s, d, i, rs=2.0):
    S, D = pas[s], pas[d]
    X = np.c_[S.x, S.y, S.z]; xi = np.array([D.x[i], D.y[i], D.z[i]])
    dist = np.linalg.norm(X - xi, axis=1)
    return set(np.where((dist < rs * D.h[i]) | (dist < rs * S.h))[0].tolist())
cases = [('LinkedListNNPS', {}), ('BoxSortNNPS', {}), ('DictBoxSortNNPS', {}), ('SpatialHashNNPS', {}), ('ExtendedSpatialHashNNPS', {'H': 2}),
         ('ExtendedSpatialHashNNPS', {'H': 3, 'approximate': False}), ('CellIndexingNNPS', {}), ('ZOrderNNPS', {}), ('ZOrderNNPS', {'H': 2}),
         ('ZOrderNNPS', {'H': 3}), ('ExtendedZOrderNNPS', {'H': 2}), ('ExtendedZOrderNNPS', {'H': 3, 'asymmetric': True}),
         ('StratifiedHashNNPS', {'num_levels': 2}), ('StratifiedHashNNPS', {'num_levels': 3, 'H': 2}), ('StratifiedSFCNNPS', {'num_levels': 2}),
         ('OctreeNNPS', {'leaf_max_particles': 10}), ('CompressedOctreeNNPS', {'leaf_max_particles': 5})]
for name, kw in cases:
    for dim in (2, 3):
        pas = arrays(dim)
        try:
            nn = getattr(N, name)(dim=dim, particles=pas, radius_scale=2.0, **kw)
        except Exception as e:
            print('%-26s %-34s dim=%d constructor: %r' % (name, kw, dim, e)); continue
        bad = 0; tot = 0
        for s, d in itertools.product((0, 1), (0, 1)):
            for i in range(0, pas[d].get_number_of_particles(), 7):
                nb = UIntArray(); nn.get_nearest_particles(s, d, i, nb)
                got = nb.get_npy_array().tolist(); tot += 1
                if set(got) != brute(pas, s, d, i) or len(got) != len(set(got)):
                    bad += 1
        print('%-26s %-34s dim=%d wrong lists: %d of %d' % (name, kw, dim, bad, tot), flush=True)
