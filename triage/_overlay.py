"""Triage helper (not used by any check): import pysph's *Python* sources from a
source tree (default /repo, or $TRIAGE_SRC) while taking the compiled extension
modules from $TRIAGE_EXT (output of build_ext.py, if set) and then the
pre-built copy under /repo/build/lib.*."""
import importlib
import os
import sys
B = '/repo/build/lib.linux-x86_64-cpython-312'
SRC = os.environ.get('TRIAGE_SRC', '/repo')
sys.path.insert(0, SRC)
for sub in ['pysph', 'pysph.base', 'pysph.sph', 'pysph.solver', 'pysph.parallel', 'pysph.tools',
            'pysph.sph.wc', 'pysph.sph.bc']:
    m = importlib.import_module(sub)
    if os.environ.get('TRIAGE_EXT'):
        m.__path__.append(os.path.join(os.environ['TRIAGE_EXT'], sub.replace('.', '/')))
    m.__path__.append(os.path.join(B, sub.replace('.', '/')))
