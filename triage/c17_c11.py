"""Triage only (not a check).  Run with the pre-built extension copy:
PYTHONPATH=/repo/build/lib.linux-x86_64-cpython-312 /venv/bin/python <this file>"""
import _overlay
import numpy as np, os, tempfile
from pysph.base.utils import get_particle_array
from pysph.base.nnps import DomainManager, LinkedListNNPS
rng = np.random.default_rng(1)
n = 400
pa = get_particle_array(name='f', x=rng.random(n), y=rng.random(n), h=np.full(n, 0.05))
dm = DomainManager(xmin=0., xmax=1., ymin=0., ymax=1., periodic_in_x=True, periodic_in_y=True)
nn = LinkedListNNPS(dim=2, particles=[pa], domain=dm, radius_scale=2.0)
nreal = pa.get_number_of_particles(real=True); ntot = pa.get_number_of_particles()
tag = pa.get('tag', only_real_particles=False)
print('C17 before reorder: real', nreal, 'total', ntot, 'ghosts inside the first num_real slots:', int((tag[:nreal] != 0).sum()))
nn.spatially_order_particles(0); nn.update()
tag = pa.get('tag', only_real_particles=False)
print('C17 after  reorder: real', pa.get_number_of_particles(real=True), 'ghosts inside the first num_real slots:',
      int((tag[:nreal] != 0).sum()), '-> expected 0 (stage loops run over range(num_real))')

from pysph.solver.utils import dump, load
d = tempfile.mkdtemp()
q = get_particle_array(name='q', x=[0., 1., 2.])
q.add_property('T', default=300.0)          # not an output property
q.set_output_arrays(['x', 'y', 'z', 'h', 'm', 'rho', 'u', 'v', 'w', 'p', 'tag', 'gid', 'pid'])
for ext in ('npz', 'hdf5'):
    f = os.path.join(d, 'o.' + ext)
    dump(f, [q], dict(t=0., dt=0.1, count=0), detailed_output=False)
    r = load(f)['arrays']['q']
    print('C11 %-4s: default of unstored T ->' % ext, r.default_values.get('T'), '(expected 300.0);',
          'output arrays equal:', sorted(r.output_property_arrays) == sorted(q.output_property_arrays))
for ext in ('npz', 'hdf5'):
    f = os.path.join(d, 'd.' + ext)
    dump(f, [q], dict(t=0., dt=0.1, count=0), detailed_output=True)
    r = load(f)['arrays']['q']
    print('C11 %-4s detailed: output arrays equal:' % ext, sorted(r.output_property_arrays) == sorted(q.output_property_arrays))
